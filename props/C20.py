"""C20 - exports are deterministic and read-only with respect to behaviour."""
import json
import os
import subprocess
from elab import passcheck


def _reraise():
    raise
from fam import designs
from vlib.ctx import ROOT, REPO, REPLAY_PY


def _run(task):
    variant, k, seed = task
    env = dict(os.environ)
    env['PYTHONPATH'] = REPO + os.pathsep + ROOT
    env['PYTHONHASHSEED'] = str(seed)
    try:
        p = subprocess.run([REPLAY_PY, '-m', 'fam.detcheck', variant, str(k)], capture_output=True,
                           text=True, env=env, cwd=ROOT, timeout=300)
    except subprocess.TimeoutExpired:
        return dict(task=task, error='timeout')
    lines = [l for l in p.stdout.splitlines() if l.startswith('DIGEST ')]
    if not lines:
        return dict(task=task, error=(p.stderr or p.stdout)[-600:])
    return dict(task=task, digest=json.loads(lines[-1][7:]))


def determinism_replay(variant, runs):
    """Replayer: run the listed (k, hashseed) constructions in fresh processes; failed iff any
    exported text differs."""
    res = [_run((variant, k, s)) for (k, s) in runs]
    errs = [r['error'] for r in res if 'error' in r]
    if errs:
        return dict(failed=False, error='subprocess failed: %s' % errs[0])
    keys = sorted(res[0]['digest'])
    diff = {}
    for key in keys:
        vals = sorted(set(r['digest'][key] for r in res))
        if len(vals) > 1:
            diff[key] = len(vals)
    return dict(failed=bool(diff), observed={'distinct_texts': diff}, expected='byte-identical')


def pass_behaviour_replay(variant, k, seed):
    """Replayer: one construction in a fresh process; failed iff a transformation pass changed the
    Output traces of the design."""
    r = _run((variant, k, seed))
    if 'error' in r:
        return dict(failed=False, error='subprocess failed: %s' % r['error'])
    bad = sorted(k_ for k_, v in r['digest'].items() if k_.endswith('_preserves_outputs') and v != 'True')
    return dict(failed=bool(bad), observed=bad, expected='outputs after the pass == outputs of the source design')


def _ro(d):
    import traceback
    from fam import detcheck
    try:
        return detcheck.readonly(d)
    except Exception:
        from vlib.guard import guarded
        return guarded(_reraise)


def contracts_part(ctx):
    """P: the ordering helpers every exporter sorts its emitted lists with (_natural_sort_key, _name_sorted,
    _net_sorted): the sort key of an item ends with its (mapped) name, so items with different names never tie
    and the order `sorted` returns does not depend on the iteration order of the set handed in (lemma)."""
    import time
    import z3
    import contracts.sortkeys as SK
    from pyvc.contract import REGISTRY
    from pyvc import run as prun
    cs = [c for c in REGISTRY.values() if c.__class__.__module__ == 'contracts.sortkeys']
    prun.run_contracts(ctx, cs, 'contracts.sortkeys')
    for vc in SK.order_is_schedule_independent():
        s = z3.Solver()
        s.set('timeout', 20000)
        s.add(*vc.pc)
        s.add(z3.Not(vc.goal))
        t0 = time.time()
        r = s.check()
        ctx.obligation('C20.' + vc.name, 'contracts of importexport._natural_sort_key / _name_sorted / _net_sorted',
                       'proved' if r == z3.unsat else 'undecided', 'z3', time.time() - t0)
    ctx.assume('ordering helpers (contracts/sortkeys.py): re.split is an external function returning an odd number '
               '(1, 3, 5) of pieces with arbitrary isdigit(); int(piece) is an arbitrary integer; `sorted` is the '
               'CPython builtin (returns the ascending arrangement of its argument under the key); that the chunk '
               'lists of two names are always comparable (text pieces and digit runs alternate) is a property of '
               're.split and is checked on concrete names only')


def run(ctx):
    contracts_part(ctx)
    q = ctx.tier == 'quick'
    variants = ['tie', 'case_tie', 'pad_tie', 'blif_import', 'sani', 'memen', 'memen_samedata', 'memen_joined', 'regs_tie', 'outs_tie', 'mems_same_name', 'rom_clones',
                'mems_init', 'regs_same_next', 'cond_fsm']
    fam = [d for d in designs.family('quick', 0) if d['name'] in
           ('mixed_alu', 'mem_two_writes', 'regs_reset', 'shared_subexp', 'rom_func', 'fanout', 'slices')]
    variants += [json.dumps(d, sort_keys=True) for d in fam]
    ks = [0, 1, 2, 3, 5, 7, 11, 13] if q else list(range(0, 14)) + [21, 50]
    seeds = [0, 1] if q else [0, 1, 2, 3]
    # the adversarial-name variants depend on where objects land in memory: many more allocation patterns
    nadv = len(variants) - len(fam)
    ks_adv = list(range(0, 20)) + [23, 29, 31, 37] if q else list(range(0, 40))
    # register chains / swaps / same-next registers on all three simulators (8 allocation patterns)
    chain = json.dumps({'name': 'reg_chain', 'params': {}}, sort_keys=True)
    allsims = ['regs_tie+allsims', 'pad_tie+allsims', 'regs_same_next+allsims', chain + '+allsims']
    variants = variants + allsims
    tasks = [(v, k, s) for v in allsims for k in ks for s in seeds[:1]] + \
            [(v, k, s) for v in variants[:nadv] for k in ks_adv for s in seeds] + \
            [(v, k, s) for v in variants[nadv:] if not v.endswith('+allsims') for k in ks for s in seeds]
    res = passcheck.pmap(_run, tasks, procs=16)
    byvar = {}
    for r in res:
        if 'error' in r:
            ctx.crashes.append('C20 subprocess %r: %s' % (r['task'], r['error'][-300:]))
            continue
        byvar.setdefault(r['task'][0], []).append(r)
    for v in variants:
        rs = byvar.get(v, [])
        if not rs:
            continue
        badp = [(r['task'], k_) for r in rs for k_, val in sorted(r['digest'].items())
                if k_.endswith('_preserves_outputs') and val != 'True']
        if badp:
            (t_, k_) = badp[0]
            ctx.confirm_and_report('C20.pass_behaviour[%s|%s]' % (v[:60], k_.split('_')[0]), 'call',
                                   dict(module='props.C20', func='pass_behaviour_replay',
                                        kwargs=dict(variant=v, k=t_[1], seed=t_[2])),
                                   canonical_input=dict(variant=v, gap=t_[1], hashseed=t_[2], what=k_),
                                   function='pyrtl.passes / simulators', solver_output='%d of %d runs' % (len(badp), len(rs)),
                                   text='a transformation pass or another simulator changed the behaviour of the design in some run')
        diff = {}
        for key in sorted(rs[0]['digest']):
            groups = {}
            for r in rs:
                groups.setdefault(r['digest'][key], []).append((r['task'][1], r['task'][2]))
            if len(groups) > 1:
                diff[key] = groups
        if diff:
            key = sorted(diff)[0]
            groups = sorted(diff[key].values())
            runs = [groups[0][0], groups[1][0]]
            ctx.confirm_and_report('C20.determinism[%s]' % v[:60], 'call',
                                   dict(module='props.C20', func='determinism_replay',
                                        kwargs=dict(variant=v, runs=[list(x) for x in runs])),
                                   canonical_input=dict(variant=v, differing_texts=sorted(diff)),
                                   function='pyrtl.importexport / pyrtl.simulation (print_vcd, print_trace)',
                                   solver_output='%s' % {k_: len(g) for k_, g in diff.items()},
                                   text='exported text differs between processes / allocation orders')
    ctx.family('C20.cross_process_determinism', 'B', instances=len(variants), evaluations=len(tasks),
               nontrivial=len(tasks),
               bound='%d designs (adversarial names: tied natural-sort keys, names needing sanitising, '
                     'write ports sharing an enable; plus family designs) x allocation gaps %s x '
                     'PYTHONHASHSEED %s (24 / 40 gaps for the adversarial-name designs), each in a fresh process; sha256 of verilog (3 reset modes), '
                     'testbench (memories with non-default initial contents), vcd, print_trace (2 modes), simulation trace, '
                     'Output traces after optimize() and synthesize() (equal across runs and equal to the source)'
                     % (len(variants), ks, seeds), sample=dict(variant=variants[0], k=ks[1], hashseed=seeds[0]))
    # read-only-ness
    rfam = [d for d in designs.family('quick', ctx.seed) if d['name'] != 'rand_design' or d['params']['seed'] % 4 == 0]
    # wide concats / bit reversals: output_to_firrtl's in-place passes (one_bit_selects, two_way_concat) see many operands
    rfam += [{'name': 'concat_many', 'params': {'n': 11, 'w': 22}}, {'name': 'concat_many', 'params': {'n': 19, 'w': 40}},
             {'name': 'slices', 'params': {'w': 12}}, {'name': 'slices', 'params': {'w': 20}}]
    rres = passcheck.pmap(_ro, rfam)
    for d, r in zip(rfam, rres):
        if r.get('crashed'):
            ctx.crashes.append('C20.readonly %s: %s' % (passcheck._dname(d), r['observed'][-300:]))
        elif r['failed']:
            ctx.confirm_and_report('C20.readonly[%s]' % passcheck._dname(d), 'call',
                                   dict(module='fam.detcheck', func='readonly', kwargs=dict(design=d)),
                                   canonical_input=dict(design=d), function='export / analysis functions',
                                   text='an export / visualisation / analysis call changed the block')
    ctx.family('C20.readonly', 'B', instances=len(rfam), evaluations=len(rfam) * 15, nontrivial=len(rfam),
               bound='fingerprint + simulation before/after 13 export/visualisation/analysis calls, '
                     'simulation+trace printing+testbench; output_to_firrtl in-place rewrite preserves '
                     'outputs and name uniqueness', sample=rfam[0])
    return ctx.finish('other', './check C20', ['CPython'],
                      'bounded (level B): byte identity across fresh processes with perturbed hash seeds '
                      'and allocation orders; read-only-ness by fingerprint')
