"""C03 - synthesize() preserves behaviour and the simulation interface."""
from fam import designs
from elab import passcheck

FUNCS = 'pyrtl.passes.synthesize'


def post_synth(B, design, passname):
    """Structural postcondition of synthesize (property statement): only single-bit gates,
    single-bit registers and memory ports, plus I/O and memory-port re-assembly."""
    import pyrtl
    merged = 'unmerged' not in passname
    allowed = set('~&|^nrwm@cs')
    probs = []
    mem_wires = set()
    for n in B.logic:
        if n.op in 'm@':
            mem_wires.update(n.args)
            mem_wires.update(n.dests)
    # wires that are copies ('w') of memory-port wires also count as port re-assembly
    for n in B.logic:
        if n.op == 'w' and n.args[0] in mem_wires:
            mem_wires.add(n.dests[0])
        if n.op == 'w' and n.dests[0] in mem_wires:
            mem_wires.add(n.args[0])
    io_adj = set()
    for n in B.logic:
        if n.op in 'cw' and any(isinstance(d, pyrtl.Output) for d in n.dests):
            io_adj.update(n.args)
    for n in B.logic:
        if n.op not in allowed:
            probs.append('op %s present' % n.op)
        if n.op in '~&|^n':
            if any(w.bitwidth != 1 for w in n.args + n.dests):
                probs.append('multi-bit gate %s' % n.op)
        if n.op == 'r' and n.dests[0].bitwidth != 1:
            probs.append('multi-bit register %s' % n.dests[0].name)
        if n.op == 'c':
            d = n.dests[0]
            if not (d in mem_wires or (merged and (d in io_adj or isinstance(d, pyrtl.Output)))):
                probs.append('concat %s is neither memory-port nor I/O re-assembly' % d.name)
        if n.op == 's':
            a = n.args[0]
            if not (a in mem_wires or (merged and isinstance(a, pyrtl.Input))):
                probs.append('select of %s is neither memory-port nor I/O disassembly' % a.name)
    # wide wires: only I/O vectors, memory-port address/data, and their direct re-assembly
    wide_ok = set(w for w in B.wirevector_set if isinstance(w, (pyrtl.Input, pyrtl.Output)))
    wide_ok |= mem_wires | io_adj
    for w in B.wirevector_set:
        if w.bitwidth != 1 and w not in wide_ok:
            probs.append('wide internal wire %s' % w.name)
        if w.bitwidth != 1 and not merged and isinstance(w, (pyrtl.Input, pyrtl.Output)):
            probs.append('wide I/O wire %s with merge_io_vectors=False' % w.name)
    return sorted(set(probs)) or None


def replay_post(design, passname, postfn):
    import importlib
    from fam import passes
    A = designs.build(design)
    for pre in design.get('pre', []):
        A, _ = passes.get(pre)(A)
    B, _ = passes.get(passname)(A)
    mod, fn = postfn.rsplit('.', 1)
    probs = getattr(importlib.import_module(mod), fn)(B, design, passname)
    return dict(failed=bool(probs), observed=probs, expected=None)


def run(ctx):
    import contracts.corecircuits     # noqa: F401
    from pyvc.contract import REGISTRY
    from pyvc import run as prun
    cs = [c for c in REGISTRY.values() if 'C03' in c.props]
    prun.run_contracts(ctx, cs, 'contracts.corecircuits')
    ctx.assume('builder model (contracts/wiremodel.py): wire = (bitwidth, den); add_net = [WF_net obligation] + '
               '[dest.den := documented value]; operators used inside the generators are summarised by their own '
               'contracts (contracts/wire.py, proved under C06); recursion by induction on the stated measure')
    fam = designs.family(ctx.tier, ctx.seed)
    k = 2 if ctx.tier == 'quick' else 3
    tasks = []
    for d in fam:
        for p in ('synthesize', 'synthesize_unmerged', 'synthesize_noupdate'):
            if p == 'synthesize_noupdate' and d['name'] == 'rand_design':
                continue
            tasks.append((d, p, k, dict(post='props.C03.post_synth')))
    passcheck.run_family(ctx, 'C03.synthesize_equiv', tasks, FUNCS,
                         'synthesize() result differs from the source design')
    ctx.assume('z3 soundness; spec/netsem.py is the reading of the LogicNet docstring')
    return ctx.finish('other', './check C03', ['z3', 'pyvc', 'spec/netsem.py', 'elab/n2smt.py'],
                      'P: _one_bit_add, _add_helper (induction on width), _basic_add, _basic_sub, _basic_lt '
                      '(induction), _basic_gt, _basic_eq, or_all_bits, tree_reduce (induction on length) compute '
                      'the documented value of + - < > = at the documented width '
                      'for all widths and values; bounded stand-in: real synthesize() run per design; '
                      'equivalence decided by SMT for all inputs/states of each instance')
