"""C17 - timing, path and fan-out analyses equal their graph-theoretic definitions."""
from elab import passcheck


def _reraise():
    raise
from fam import designs


def _call(task):
    import traceback
    import importlib
    fn = getattr(importlib.import_module('fam.timingcheck'), task['fn'])
    try:
        return fn(**task['kw'])
    except Exception:
        from vlib.guard import guarded
        return guarded(_reraise)


def run(ctx):
    import fam.timingcheck  # noqa: F401 (registers the reconverge design)
    import contracts.analysis   # noqa: F401
    from pyvc.contract import REGISTRY
    from pyvc import run as prun
    cs = [c for c in REGISTRY.values() if 'C17' in c.props]
    prun.run_contracts(ctx, cs, 'contracts.analysis')
    ctx.assume('timing-map contract: delays are mathematical integers (caller-supplied table; the float default '
               'table is covered by the bounded family); the timing map is read as a total map (KeyError on an '
               'argument left untimed by an end-of-block net is outside the contract); netlist well-formedness '
               '(one driver, producers first) as decided under C10; the table gives register nets a negative '
               'delay; the step from the longest-path recurrence to "maximum over all chains" is the standard '
               'induction over the dependency order and is not mechanised')
    fam = designs.family(ctx.tier, ctx.seed) + [{'name': 'reconverge', 'params': {'w': 2}},
                                                {'name': 'reconverge', 'params': {'w': 3}},
                                                {'name': 'two_mems', 'params': {'aw': 2}},
                                                {'name': 'two_mems', 'params': {'aw': 1}},
                                                {'name': 'near_tie', 'params': {'w': 1}},
                                                {'name': 'mem_loops', 'params': {'nports': 1}},
                                                {'name': 'mem_loops', 'params': {'nports': 2}},
                                                {'name': 'mem_loops', 'params': {'nports': 3}}]
    if ctx.tier != 'quick':
        fam += [{'name': 'rand_design', 'params': {'seed': 5000 + s}} for s in range(600)]
    tasks = []
    for d in fam:
        for v in (-1, 0, 1, 2):
            tasks.append(dict(fn='timing', kw=dict(design=d, variant=v)))
        tasks.append(dict(fn='paths_fanout', kw=dict(design=d)))
    # histories: earlier analyses (custom tables, default table) in the same process
    for i, d in enumerate(fam):
        if i % 3 == 0:
            tasks.append(dict(fn='timing', kw=dict(design=d, variant=-1, history=[1])))
            tasks.append(dict(fn='timing', kw=dict(design=d, variant=0, history=[-1, 1])))
    res = passcheck.pmap(_call, tasks)
    n = {'timing': 0, 'paths_fanout': 0}
    for t, r in zip(tasks, res):
        if r.get('crashed'):
            ctx.crashes.append('C17.%s %s: %s' % (t['fn'], passcheck._dname(t['kw']['design']), r['observed'][-400:]))
            continue
        if r.get('skipped'):
            continue
        n[t['fn']] += 1
        if r['failed']:
            kw = t['kw']
            ctx.confirm_and_report('C17.%s[%s%s]' % (t['fn'], passcheck._dname(kw['design']),
                                                     (',variant=%d' % kw['variant'] if 'variant' in kw else '') +
                                                     (',after=%s' % kw['history'] if kw.get('history') else '')),
                                   'call', dict(module='fam.timingcheck', func=t['fn'], kwargs=kw),
                                   canonical_input=dict(fn=t['fn'], kw=kw),
                                   function='pyrtl.analysis', text='analysis differs from its graph definition')
    ctx.family('C17.timing', 'B', instances=n['timing'], evaluations=n['timing'], nontrivial=n['timing'],
               bound='designs x {default delays, 3 custom integer delay tables incl. end-of-block ops}: '
                     'timing_map vs memoised longest path, max_length, max_freq (4 parameter sets), '
                     'critical paths = all maximal chains; analyses repeated after other analyses (custom / default '
                     'tables) in one process; caller\'s table unchanged', sample=tasks[0])
    ctx.family('C17.paths_fanout', 'B', instances=n['paths_fanout'], evaluations=n['paths_fanout'],
               nontrivial=n['paths_fanout'],
               bound='all (Input|Register) x (Output|Register) pairs: paths == independent simple-net-path '
                     'enumeration (memory write->read, register loops); fanout == argument positions; '
                     'distance sums', sample=tasks[4])
    ctx.assume('floats compared with tolerance 1e-9; integer custom delays are exact')
    return ctx.finish('other', './check C17', ['z3', 'pyvc', 'CPython'],
                      'P: TimingAnalysis._generate_timing_map satisfies the longest-path recurrence for any netlist '
                      'size and any integer delay table (loop invariant over ghost netlist functions); bounded '
                      '(level B): executable contracts against independent graph computations')
