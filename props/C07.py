"""C07 - conditional_assignment gives each target its unique active branch's value."""
import itertools
from elab import passcheck

FUNCS = 'pyrtl.conditional (_current_select, _check_and_add_pred_set, _finalize)'


def _one(tree):
    import time
    import traceback
    task = tree
    try:
        import z3
        import pyrtl
        from fam import condtrees as CT
        from elab.n2smt import Sym, model_int
        from spec.ops import BVOps, SV, IntOps
        task = tree
        tree = CT.unwrap(task)
        try:
            tags, used = CT.elaborate(tree)
            accepted = True
        except pyrtl.PyrtlError:
            accepted = False
        except Exception as e:
            return dict(tree=task, status='raised', why='%s: %s' % (type(e).__name__, str(e)[:200]))
        # semantic exclusivity by the reference interpreter (8 predicate valuations)
        if not accepted:
            tags = {}
            for k, (path, tg) in enumerate(CT.assignments(tree)):
                tags[(path, tg)] = 'v%d' % k
        nonexcl = None
        up = CT.used_preds(tree)
        for bits in itertools.product([0, 1], repeat=len(up)):
            val = dict.fromkeys(CT.ALL_PREDS, 0)
            val.update(zip(up, bits))
            val.update({v: 0 for v in tags.values()})
            val['__regd'] = 0
            acts = CT.interp(IntOps, tree, val, tags)
            for tg, lst in acts.items():
                if sum(1 for c, _ in lst if c) > 1:
                    nonexcl = (tg, val)
        if not accepted:
            return dict(tree=task, status='rejected', nonexclusive=bool(nonexcl))
        if nonexcl:
            return dict(tree=task, status='accepted-nonexclusive', why=str(nonexcl))
        block = pyrtl.working_block()
        sym = Sym(block)
        ins = sym.fresh_inputs('c')
        st = sym.fresh_state('c')
        val, nxt = sym.step(st, ins)
        Wc = CT.W + 4
        o = BVOps(Wc)
        sval = {n: SV.lift(t, Wc) for n, t in ins.items()}
        bn = block.wirevector_by_name
        sval['__regd'] = SV.lift(st['regs'][bn['regd']], Wc)
        acts = CT.interp(o, tree, sval, tags)
        goals = []

        def eq(term, sv):
            sv = sv if isinstance(sv, SV) else SV(sv, Wc)
            return SV.lift(term, Wc).t == sv.t
        if 'w' in used:
            goals.append(eq(val[bn['ow']], CT.expected(o, acts, 'w', 0)))
        if 'wd' in used:
            goals.append(eq(val[bn['owd']], CT.expected(o, acts, 'wd', CT.default_of('wd', sval))))
        if 'reg' in used:
            r = bn['reg']
            goals.append(eq(nxt['regs'][r], CT.expected(o, acts, 'reg', SV.lift(st['regs'][r], Wc))))
        if 'regd' in used:
            r = bn['regd']
            goals.append(eq(nxt['regs'][r], CT.expected(o, acts, 'regd', CT.default_of('regd', sval))))
        mem = sym.mems[0]
        if 'mem' in used:
            arr = st['mems'][mem]
            a = ins['maddr']
            old = z3.Select(arr, a)
            newv = CT.expected(o, acts, 'mem_write', SV.lift(old, Wc))
            newv = newv if isinstance(newv, SV) else SV(newv, Wc)
            anya = CT.any_active(o, acts, 'mem_write')
            anya = z3.BoolVal(anya) if isinstance(anya, bool) else anya
            exp_arr = z3.If(anya, z3.Store(arr, a, z3.Extract(CT.W - 1, 0, newv.t)), arr)
            goals.append(nxt['mems'][mem] == exp_arr)
        s = z3.Solver()
        s.set('timeout', 60000)
        s.add(z3.Not(z3.And(*goals)))
        t0 = time.time()
        r = s.check()
        dt = time.time() - t0
        if r == z3.sat:
            m = s.model()
            cex = dict(inputs={n: model_int(m, t) for n, t in ins.items()},
                       reg0=model_int(m, st['regs'][bn['reg']]), regd0=model_int(m, st['regs'][bn['regd']]),
                       mem0={str(a_): model_int(m, z3.Select(st['mems'][mem], z3.BitVecVal(a_, 1)))
                             for a_ in (0, 1)})
            return dict(tree=task, status='refuted', cex=cex, solver_s=dt)
        return dict(tree=task, status='proved' if r == z3.unsat else 'unknown', solver_s=dt)
    except Exception:
        return dict(tree=task, status='crash', why=traceback.format_exc()[-1500:])


def run(ctx):
    import contracts.conditional     # noqa: F401
    from pyvc.contract import REGISTRY
    from pyvc import run as prun
    prun.run_contracts(ctx, [c for c in REGISTRY.values() if 'C07' in c.props], 'contracts.conditional')
    ctx.assume('_finalize contract: builder model (contracts/wiremodel.py); every rhs already has the width of '
               'its target (established by _prepare_for_assignment before it is recorded); predicates are one '
               'bit; PRECONDITION at most one predicate of a target is 1 (what _check_and_add_pred_set enforces); '
               '_current_select / _check_and_add_pred_set (the predicate construction and the exclusion '
               'check): bounded family')
    from fam import condtrees as CT
    import random
    trees = list(CT.handmade_trees())
    if ctx.tier == 'quick':
        trees += CT.enumerate_trees(3, 2, ('w', 'reg'))
        more = CT.enumerate_trees(2, 2, ('wd', 'regd', 'mem')) + CT.enumerate_trees(3, 3, ('mem',))
        trees += more
        big = CT.enumerate_trees(4, 3, ('w',))
        random.Random(ctx.seed).shuffle(big)
        trees += big[:400]
    else:
        trees += CT.enumerate_trees(4, 3, ('w', 'reg'))
        trees += CT.enumerate_trees(3, 3, ('wd', 'regd', 'mem'))
        big = CT.enumerate_trees(5, 3, ('w',))
        random.Random(ctx.seed).shuffle(big)
        trees += big[:3000]
    # one-bit data (targets, defaults, values): every tree with a `defaults` / register / memory target once more
    narrow = [t for t in trees if any(tg.rstrip('!') in ('wd', 'regd', 'regh', 'mem') for _, tg in CT.assignments(t))]
    trees = trees + [dict(W=1, tree=t) for t in narrow[::2 if ctx.tier == 'quick' else 1]]
    # defaults= entries given as Python ints (0 clears a register, it does not mean "hold"), non-zero too
    withd = [t for t in narrow if any(tg.rstrip('!') in ('wd', 'regd', 'regh') for _, tg in CT.assignments(t))]
    for i, t in enumerate(withd[::3 if ctx.tier == 'quick' else 1]):
        trees.append(dict(W=3, tree=t, dflt=[(0, 0), (5, 0), (0, 6), (3, 3)][i % 4]))
    res = passcheck.pmap(_one, trees)
    cnt = {}
    solver_s = 0.0
    for r in res:
        st = r['status']
        cnt[st] = cnt.get(st, 0) + 1
        solver_s += r.get('solver_s', 0.0)
        name = 'C07.tree[%s]' % _show(r['tree'])
        if st == 'crash':
            ctx.crashes.append(name + ': ' + r['why'][-400:])
        elif st == 'refuted':
            ctx.confirm_and_report(name, 'call', dict(module='fam.condtrees', func='replay',
                                                      kwargs=dict(tree=r['tree'], **r['cex'])),
                                   canonical_input=dict(tree=r['tree']), function=FUNCS,
                                   text='conditionally assigned target does not take its unique active branch value')
        elif st == 'raised':
            ctx.confirm_and_report(name + '.raises', 'call',
                                   dict(module='fam.condtrees', func='replay',
                                        kwargs=dict(tree=r['tree'], inputs={})),
                                   canonical_input=dict(tree=r['tree']), function=FUNCS,
                                   solver_output=r['why'],
                                   text='elaboration raised a non-PyRTL exception')
        elif st == 'accepted-nonexclusive':
            ctx.confirm_and_report(name + '.exclusion', 'call',
                                   dict(module='fam.condtrees', func='nonexclusive_accepted',
                                        kwargs=dict(tree=r['tree'])),
                                   canonical_input=dict(tree=r['tree']), function=FUNCS,
                                   text='program with two simultaneously active assignments accepted')
    acc = cnt.get('proved', 0) + cnt.get('refuted', 0)
    if acc * 4 < len(trees):
        raise RuntimeError('vacuity guard: only %d of %d enumerated trees are accepted' % (acc, len(trees)))
    ctx.family('C07.condition_trees', 'PB', instances=len(trees), smt_queries=acc, nontrivial=acc,
               solver_s=solver_s, exhaustive=False,
               bound='condition trees (<=3 with-blocks depth 2 over {wire, register} complete; defaults/'
                     'memory targets <=2..3 blocks complete, also with one-bit data; 4-5 blocks sampled); verdicts %s; accepted '
                     'programs decided for all predicate/data valuations and register/memory states; '
                     'non-exclusive programs must be rejected (converse not demanded)' % cnt,
               sample=dict(tree=trees[len(trees) // 4]))
    from vlib.guard import guarded
    for variant in ('defaults_reuse', 'mem_two_blocks'):
        r = guarded(lambda: CT.block_sequences(variant))
        if r.get('crashed'):
            ctx.crashes.append('C07.block_sequences: ' + r['observed'][-300:])
        elif r['failed']:
            ctx.confirm_and_report('C07.block_sequences[%s]' % variant, 'call',
                                   dict(module='fam.condtrees', func='block_sequences', kwargs=dict(variant=variant)),
                                   canonical_input=dict(variant=variant), function=FUNCS,
                                   text='several conditional_assignment blocks in a row do not each behave as documented')
    ctx.family('C07.block_sequences', 'B', instances=2, evaluations=36, nontrivial=2,
               bound='two blocks sharing one defaults dict object (all valuations); one memory written conditionally in '
                     'two separate blocks (24 random cycles)', sample=dict(variant='defaults_reuse'))
    ctx.assume('z3 soundness; spec/netsem.py; reference tree interpreter fam/condtrees.py')
    return ctx.finish('other', './check C07', ['z3', 'pyvc', 'spec/netsem.py', 'elab/n2smt.py'],
                      'P: _finalize gives every target the rhs of its unique active branch, else its default, for any '
                      'number of branches (wires, registers with default self, `defaults`, memory write ports), '
                      'under the exclusion precondition; '
                      'bounded stand-in: every enumerated condition tree elaborated by the real '
                      'conditional.py and decided by SMT against the tree interpreter')


def _show(t):
    if isinstance(t, dict):
        return 'W=%d|' % t.get('W', 3) + ('dflt=%s|' % (t['dflt'],) if t.get('dflt') is not None else '') + _show(t['tree'])
    return ';'.join('%s:%s{%s}' % (p, '+'.join(a), _show(c)) for p, a, c in t)
