"""C07 - conditional_assignment gives each target its unique active branch's value."""
import itertools
from elab import passcheck

FUNCS = 'pyrtl.conditional (_current_select, _check_and_add_pred_set, _finalize)'


def _one(tree):
    import time
    import traceback
    try:
        import z3
        import pyrtl
        from fam import condtrees as CT
        from elab.n2smt import Sym, model_int
        from spec.ops import BVOps, SV, IntOps
        try:
            tags, used = CT.elaborate(tree)
            accepted = True
        except pyrtl.PyrtlError:
            accepted = False
        except Exception as e:
            return dict(tree=tree, status='raised', why='%s: %s' % (type(e).__name__, str(e)[:200]))
        # semantic exclusivity by the reference interpreter (8 predicate valuations)
        if not accepted:
            tags = {}
            for k, (path, tg) in enumerate(CT.assignments(tree)):
                tags[(path, tg)] = 'v%d' % k
        nonexcl = None
        for bits in itertools.product([0, 1], repeat=len(CT.ALL_PREDS)):
            val = dict(zip(CT.ALL_PREDS, bits))
            val.update({v: 0 for v in tags.values()})
            val['__regd'] = 0
            acts = CT.interp(IntOps, tree, val, tags)
            for tg, lst in acts.items():
                if sum(1 for c, _ in lst if c) > 1:
                    nonexcl = (tg, val)
        if not accepted:
            return dict(tree=tree, status='rejected', nonexclusive=bool(nonexcl))
        if nonexcl:
            return dict(tree=tree, status='accepted-nonexclusive', why=str(nonexcl))
        block = pyrtl.working_block()
        sym = Sym(block)
        ins = sym.fresh_inputs('c')
        st = sym.fresh_state('c')
        val, nxt = sym.step(st, ins)
        Wc = CT.W + 4
        o = BVOps(Wc)
        sval = {n: SV.lift(t, Wc) for n, t in ins.items()}
        bn = block.wirevector_by_name
        sval['__regd'] = SV.lift(st['regs'][bn['regd']], Wc)
        acts = CT.interp(o, tree, sval, tags)
        goals = []

        def eq(term, sv):
            sv = sv if isinstance(sv, SV) else SV(sv, Wc)
            return SV.lift(term, Wc).t == sv.t
        if 'w' in used:
            goals.append(eq(val[bn['ow']], CT.expected(o, acts, 'w', 0)))
        if 'wd' in used:
            goals.append(eq(val[bn['owd']], CT.expected(o, acts, 'wd', sval['dflt_w'])))
        if 'reg' in used:
            r = bn['reg']
            goals.append(eq(nxt['regs'][r], CT.expected(o, acts, 'reg', SV.lift(st['regs'][r], Wc))))
        if 'regd' in used:
            r = bn['regd']
            goals.append(eq(nxt['regs'][r], CT.expected(o, acts, 'regd', sval['dflt_r'])))
        mem = sym.mems[0]
        if 'mem' in used:
            arr = st['mems'][mem]
            a = ins['maddr']
            old = z3.Select(arr, a)
            newv = CT.expected(o, acts, 'mem_write', SV.lift(old, Wc))
            newv = newv if isinstance(newv, SV) else SV(newv, Wc)
            anya = CT.any_active(o, acts, 'mem_write')
            anya = z3.BoolVal(anya) if isinstance(anya, bool) else anya
            exp_arr = z3.If(anya, z3.Store(arr, a, z3.Extract(CT.W - 1, 0, newv.t)), arr)
            goals.append(nxt['mems'][mem] == exp_arr)
        s = z3.Solver()
        s.set('timeout', 60000)
        s.add(z3.Not(z3.And(*goals)))
        t0 = time.time()
        r = s.check()
        dt = time.time() - t0
        if r == z3.sat:
            m = s.model()
            cex = dict(inputs={n: model_int(m, t) for n, t in ins.items()},
                       reg0=model_int(m, st['regs'][bn['reg']]), regd0=model_int(m, st['regs'][bn['regd']]),
                       mem0={str(a_): model_int(m, z3.Select(st['mems'][mem], z3.BitVecVal(a_, 1)))
                             for a_ in (0, 1)})
            return dict(tree=tree, status='refuted', cex=cex, solver_s=dt)
        return dict(tree=tree, status='proved' if r == z3.unsat else 'unknown', solver_s=dt)
    except Exception:
        return dict(tree=tree, status='crash', why=traceback.format_exc()[-1500:])


def exclusion_lemma(ctx):
    """Lemma over the contract of _finalize: with FOLD(0) = D, FOLD(k+1) = R(k) if P(k) else FOLD(k),
    and at most one active predicate (what _check_and_add_pred_set enforces), FOLD(N) is the rhs of
    the unique active branch, else the default.  Induction on k: base and step discharged by z3."""
    import time
    import z3
    Int = z3.IntSort()
    FOLD, P, R = z3.Function('FOLD', Int, Int), z3.Function('P', Int, Int), z3.Function('R', Int, Int)
    D, N, i, k, j = z3.Ints('D N i k j')
    uniq = z3.ForAll([j], z3.Implies(z3.And(0 <= j, j < N, j != i), P(j) == 0))
    claim = lambda kk: z3.And(z3.Implies(z3.And(0 <= i, i < kk, P(i) != 0), FOLD(kk) == R(i)),      # noqa: E731
                              z3.Implies(z3.Or(i >= kk, i < 0, P(i) == 0), FOLD(kk) == D))
    rec = FOLD(k + 1) == z3.If(P(k) != 0, R(k), FOLD(k))
    goals = {
        'base: FOLD(0) is the default': ([FOLD(0) == D], claim(z3.IntVal(0))),
        'step: the claim is preserved by one more branch':
            ([uniq, 0 <= k, k < N, rec, claim(k)], claim(k + 1)),
        'conclusion: the unique active branch wins, else the default':
            ([claim(N), 0 <= i, i < N], z3.And(z3.Implies(P(i) != 0, FOLD(N) == R(i)),
                                               z3.Implies(P(i) == 0, FOLD(N) == D))),
    }
    for nm, (hyps, goal) in goals.items():
        s_ = z3.Solver()
        s_.set('timeout', 20000)
        s_.add(*hyps)
        s_.add(z3.Not(goal))
        t0 = time.time()
        r = s_.check()
        ctx.obligation('C07.lemma:exclusion ' + nm, 'contract of pyrtl.conditional._finalize',
                       'proved' if r == z3.unsat else 'undecided', 'z3', time.time() - t0,
                       detail=None if r == z3.unsat else str(r))


def run(ctx):
    import contracts.conditional     # noqa: F401
    from pyvc.contract import REGISTRY
    from pyvc import run as prun
    prun.run_contracts(ctx, [c for c in REGISTRY.values() if 'C07' in c.props], 'contracts.conditional')
    exclusion_lemma(ctx)
    ctx.assume('_finalize contract: builder model (contracts/wiremodel.py); every rhs already has the width of '
               'its target (established by _prepare_for_assignment before it is recorded); predicates are one '
               'bit; _current_select / _check_and_add_pred_set (the predicate construction and the exclusion '
               'check): bounded family; induction principle over the number of branches is the meta-argument '
               'of the exclusion lemma')
    from fam import condtrees as CT
    import random
    trees = list(CT.handmade_trees())
    if ctx.tier == 'quick':
        trees += CT.enumerate_trees(3, 2, ('w', 'reg'))
        more = CT.enumerate_trees(2, 2, ('wd', 'regd', 'mem')) + CT.enumerate_trees(3, 3, ('mem',))
        trees += more
        big = CT.enumerate_trees(4, 3, ('w',))
        random.Random(ctx.seed).shuffle(big)
        trees += big[:400]
    else:
        trees += CT.enumerate_trees(4, 3, ('w', 'reg'))
        trees += CT.enumerate_trees(3, 3, ('wd', 'regd', 'mem'))
        big = CT.enumerate_trees(5, 3, ('w',))
        random.Random(ctx.seed).shuffle(big)
        trees += big[:3000]
    res = passcheck.pmap(_one, trees)
    cnt = {}
    solver_s = 0.0
    for r in res:
        st = r['status']
        cnt[st] = cnt.get(st, 0) + 1
        solver_s += r.get('solver_s', 0.0)
        name = 'C07.tree[%s]' % _show(r['tree'])
        if st == 'crash':
            ctx.crashes.append(name + ': ' + r['why'][-400:])
        elif st == 'refuted':
            ctx.confirm_and_report(name, 'call', dict(module='fam.condtrees', func='replay',
                                                      kwargs=dict(tree=r['tree'], **r['cex'])),
                                   canonical_input=dict(tree=r['tree']), function=FUNCS,
                                   text='conditionally assigned target does not take its unique active branch value')
        elif st == 'raised':
            ctx.confirm_and_report(name + '.raises', 'call',
                                   dict(module='fam.condtrees', func='replay',
                                        kwargs=dict(tree=r['tree'], inputs={})),
                                   canonical_input=dict(tree=r['tree']), function=FUNCS,
                                   solver_output=r['why'],
                                   text='elaboration raised a non-PyRTL exception')
        elif st == 'accepted-nonexclusive':
            ctx.confirm_and_report(name + '.exclusion', 'call',
                                   dict(module='fam.condtrees', func='nonexclusive_accepted',
                                        kwargs=dict(tree=r['tree'])),
                                   canonical_input=dict(tree=r['tree']), function=FUNCS,
                                   text='program with two simultaneously active assignments accepted')
    acc = cnt.get('proved', 0) + cnt.get('refuted', 0)
    if acc * 4 < len(trees):
        raise RuntimeError('vacuity guard: only %d of %d enumerated trees are accepted' % (acc, len(trees)))
    ctx.family('C07.condition_trees', 'PB', instances=len(trees), smt_queries=acc, nontrivial=acc,
               solver_s=solver_s, exhaustive=False,
               bound='condition trees (<=3 with-blocks depth 2 over {wire, register} complete; defaults/'
                     'memory targets <=2..3 blocks complete; 4-5 blocks sampled); verdicts %s; accepted '
                     'programs decided for all predicate/data valuations and register/memory states; '
                     'non-exclusive programs must be rejected (converse not demanded)' % cnt,
               sample=dict(tree=trees[len(trees) // 2]))
    ctx.assume('z3 soundness; spec/netsem.py; reference tree interpreter fam/condtrees.py')
    return ctx.finish('other', './check C07', ['z3', 'pyvc', 'spec/netsem.py', 'elab/n2smt.py'],
                      'P: _finalize folds any number of (predicate, rhs) branches into the documented select chain '
                      '(wires, registers with default self, `defaults`, memory write ports) + exclusion lemma; '
                      'bounded stand-in: every enumerated condition tree elaborated by the real '
                      'conditional.py and decided by SMT against the tree interpreter')


def _show(t):
    return ';'.join('%s:%s{%s}' % (p, '+'.join(a), _show(c)) for p, a, c in t)
