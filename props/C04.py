"""C04 - optimize() and its constituent passes preserve observable behaviour."""
from fam import designs, passes
from elab import passcheck

FUNCS = 'pyrtl.passes.optimize'
SINGLE = ['optimize', 'constant_propagation', 'common_subexp_elimination', 'remove_wire_nets',
          'remove_slice_nets', 'remove_unlistened_nets']


def cse_lemma(ctx):
    """Lemma over the real module constant `ops_where_arg_order_matters`: every primitive that
    common-subexpression elimination canonicalises by *sorting its arguments* is symmetric in
    its arguments (documented value unchanged under every transposition), for all widths/values."""
    import itertools
    import time
    import z3
    from pyvc import engine as E
    from pyvc import theory as T
    m = E.get_module('pyrtl.passes')
    node = m.assigns.get('ops_where_arg_order_matters')
    fn = 'pyrtl.passes.ops_where_arg_order_matters'
    if node is None or not isinstance(getattr(node, 'value', None), str):
        ctx.obligation('C04.lemma:cse-sorted-args-symmetric', fn, 'undecided', 'pyvc', 0.0,
                       detail='constant not found as a string literal')
        return
    ordered = node.value
    P = T.pow2
    a, b, c, w = z3.Ints('a b c w')
    arity = {'w': 1, '~': 1, 's': 1, 'r': 1, 'm': 1, '&': 2, '|': 2, '^': 2, 'n': 2, '+': 2, '-': 2,
             '*': 2, '<': 2, '>': 2, '=': 2, 'c': 2, 'x': 3, '@': 3}
    I = z3.If

    def sem(op, xs):
        if op == '&':
            return T.band(xs[0], xs[1])
        if op == '|':
            return T.bor(xs[0], xs[1])
        if op == '^':
            return T.bxor(xs[0], xs[1])
        if op == 'n':
            return P(w) - 1 - T.band(xs[0], xs[1])
        if op == '+':
            return xs[0] + xs[1]
        if op == '-':
            return (xs[0] - xs[1]) % P(w + 1)
        if op == '*':
            return xs[0] * xs[1]
        if op == '<':
            return I(xs[0] < xs[1], 1, 0)
        if op == '>':
            return I(xs[0] > xs[1], 1, 0)
        if op == '=':
            return I(xs[0] == xs[1], 1, 0)
        if op == 'c':
            return xs[0] * P(w) + xs[1]
        if op == 'x':
            return I(xs[0] == 0, xs[1], xs[2])
        if op == '@':
            return xs[0] + 2 * xs[1] + 3 * xs[2]      # (addr, data, enable) are distinct roles
        return xs[0]
    for op in sorted(arity):
        if op in ordered or arity[op] == 1:
            continue
        xs = [a, b, c][:arity[op]]
        hyp = [w >= 1] + [z3.And(x >= 0, x < P(w)) for x in xs]
        goal = z3.And(*[sem(op, list(p)) == sem(op, xs) for p in itertools.permutations(xs)])
        s_ = z3.Solver()
        s_.set('timeout', 20000)
        fs = hyp + [z3.Not(goal)]
        s_.add(*fs)
        s_.add(*T.ground_axioms(fs))
        t0 = time.time()
        r = s_.check()
        name = 'C04.lemma:cse-sorted-args-symmetric[%s]' % op
        if r == z3.unsat:
            ctx.obligation(name, fn, 'proved', 'z3', time.time() - t0, E.source_hash('pyrtl.passes', 'ops_where_arg_order_matters'))
        elif r == z3.sat:
            mdl = s_.model()
            ctx.obligation(name, fn, 'refuted-no-input', 'z3', time.time() - t0, detail=str(mdl)[:300])
            ctx.violation(name, dict(function=fn, obligation=name),
                          'op %r is canonicalised by sorting its arguments but is not symmetric' % op,
                          'symmetric', function=fn, no_input=True, solver_output='z3: sat\nmodel: %s' % mdl,
                          text='common_subexp_elimination may merge nets that differ in argument order')
        else:
            ctx.obligation(name, fn, 'undecided', 'z3', time.time() - t0, detail=str(r))


def run(ctx):
    import contracts.passes     # noqa: F401
    from pyvc.contract import REGISTRY
    from pyvc import run as prun
    cs = [c for c in REGISTRY.values() if 'C04' in c.props]
    prun.run_contracts(ctx, cs, 'contracts.passes')
    cse_lemma(ctx)
    fam = designs.family(ctx.tier, ctx.seed)
    k = 2 if ctx.tier == 'quick' else 3
    tasks = []
    opts = dict(sanction=True)
    for d in fam:
        for level in ([], ['synthesize'], ['synthesize', 'nand_synth'],
                      ['synthesize', 'and_inverter_synth']):
            if level and d['name'] == 'rand_design' and ctx.tier == 'quick' and \
                    d['params']['seed'] % 3:
                continue
            dd = passcheck.design_with_pre(d, level)
            for p in SINGLE:
                if level and p in ('remove_slice_nets',) and ctx.tier == 'quick':
                    continue
                tasks.append((dd, p, k, opts))
            # repeated application
            tasks.append((dd, passes.seq('optimize', 'optimize'), k, opts))
            if not level:
                tasks.append((dd, passes.seq('constant_propagation', 'common_subexp_elimination',
                                             'constant_propagation'), k, opts))
                tasks.append((dd, 'optimize_copy', k, opts))
        # the passes are handed the block through block= while an unrelated block is the working block
        if d['name'] in ('counter', 'mixed_alu', 'const_fold', 'shared_subexp', 'mem_rw', 'regs_reset'):
            for p in ('optimize_copy@foreign', 'constant_propagation@foreign', 'common_subexp_elimination@foreign'):
                tasks.append((passcheck.design_with_pre(d, []), p, k, opts))
        # Outputs driven directly by logic nets (no 'w' net in front): folding / merging must keep them
        if d['name'] in ('const_fold', 'consts', 'shared_subexp', 'mixed_alu', 'binop', 'unop', 'repeat_args',
                         'slices', 'trunc_ext', 'concat3', 'fold_in_place', 'mux2'):
            dd = passcheck.design_with_pre(d, ['direct_connect_outputs'])
            for p in ('optimize', 'constant_propagation', 'common_subexp_elimination'):
                tasks.append((dd, p, k, opts))
    passcheck.run_family(ctx, 'C04.pass_equiv', tasks, FUNCS,
                         'optimisation pass changed observable behaviour / interface / well-formedness')
    ctx.assume('z3 soundness; spec/netsem.py is the reading of the LogicNet docstring')
    ctx.assume('sanctioned difference: a register the pass eliminates whose next value is a '
               'compile-time constant is constrained to start at that constant (property statement)')
    ctx.assume('Python int = mathematical integer; bit-operation rewrites of DESIGN 3.2; Const(...) and '
               'LogicNet(...) constructors modelled as records (Const precondition: value fits bitwidth)')
    return ctx.finish('other', './check C04', ['z3', 'pyvc', 'spec/netsem.py', 'elab/n2smt.py'],
                      'P: folding rules of constant_prop_check and the CSE symmetry lemma discharged by z3 '
                      'for all widths/values; bounded stand-in: the real passes run per design; equivalence '
                      'with the snapshot taken before the pass decided by SMT for all inputs/states')
