"""C04 - optimize() and its constituent passes preserve observable behaviour."""
from fam import designs, passes
from elab import passcheck

FUNCS = 'pyrtl.passes.optimize'
SINGLE = ['optimize', 'constant_propagation', 'common_subexp_elimination', 'remove_wire_nets',
          'remove_slice_nets', 'remove_unlistened_nets']


def run(ctx):
    fam = designs.family(ctx.tier, ctx.seed)
    k = 2 if ctx.tier == 'quick' else 3
    tasks = []
    opts = dict(sanction=True)
    for d in fam:
        for level in ([], ['synthesize'], ['synthesize', 'nand_synth'],
                      ['synthesize', 'and_inverter_synth']):
            if level and d['name'] == 'rand_design' and ctx.tier == 'quick' and \
                    d['params']['seed'] % 3:
                continue
            dd = passcheck.design_with_pre(d, level)
            for p in SINGLE:
                if level and p in ('remove_slice_nets',) and ctx.tier == 'quick':
                    continue
                tasks.append((dd, p, k, opts))
            # repeated application
            tasks.append((dd, passes.seq('optimize', 'optimize'), k, opts))
            if not level:
                tasks.append((dd, passes.seq('constant_propagation', 'common_subexp_elimination',
                                             'constant_propagation'), k, opts))
                tasks.append((dd, 'optimize_copy', k, opts))
    passcheck.run_family(ctx, 'C04.pass_equiv', tasks, FUNCS,
                         'optimisation pass changed observable behaviour / interface / well-formedness')
    ctx.assume('z3 soundness; spec/netsem.py is the reading of the LogicNet docstring')
    ctx.assume('sanctioned difference: a register the pass eliminates whose next value is a '
               'compile-time constant is constrained to start at that constant (property statement)')
    return ctx.finish('other', './check C04', ['z3', 'spec/netsem.py', 'elab/n2smt.py'],
                      'bounded stand-in: the real passes run per design; equivalence with the '
                      'snapshot taken before the pass decided by SMT for all inputs/states')
