"""C16 - value conversion helpers are range-exact and mutually inverse."""
from elab import passcheck


def _reraise():
    raise


def _call(task):
    import traceback
    import importlib
    fn = getattr(importlib.import_module('fam.convcheck'), task['fn'])
    try:
        return fn(**task['kw'])
    except Exception:
        from vlib.guard import guarded
        return guarded(_reraise)


def lemmas(ctx):
    """Lemmas over the contracts (not over bodies)."""
    import time
    import z3
    from pyvc import theory as T
    v, b, num = z3.Ints('v b num')
    P = T.pow2
    goals = {
        # Const.__init__ post-checks cannot fire after an accepted conversion (contract of
        # infer_val_and_bitwidth: 0 <= num < 2**bw, bw >= 1)
        'Const.__init__: accepted conversion never trips the internal range checks':
            ([b >= 1, num >= 0, num < P(b)], z3.And(z3.Not(num < 0), num / P(b) == 0)),
        # rev_twos_comp_repr(twos_comp_repr(v, b), b) == v on twos_comp_repr's accepted domain
        'rev_twos_comp_repr inverts twos_comp_repr':
            ([b >= 1, z3.If(v >= 0, v, -v) < P(b - 1)],
             z3.If(v % P(b) >= P(b - 1), v % P(b) - P(b), v % P(b)) == v),
        # and the other way round on rev's accepted domain (r != 2**(b-1), 0 <= r < 2**b)
        'twos_comp_repr inverts rev_twos_comp_repr':
            ([b >= 1, num >= 0, num < P(b), num != P(b - 1)],
             z3.If(num >= P(b - 1), num - P(b), num) % P(b) == num),
        # val_to_signed_integer inverts the signed encoding of infer_val_and_bitwidth
        'val_to_signed_integer(encode(v, b), b) == v':
            ([b >= 1, v >= -P(b - 1), v < P(b - 1)],
             z3.If(v % P(b) >= P(b - 1), v % P(b) - P(b), v % P(b)) == v),
    }
    for nm, (hyps, goal) in goals.items():
        s = z3.Solver()
        s.set('timeout', 20000)
        fs = hyps + [z3.Not(goal)]
        s.add(*fs)
        s.add(*T.ground_axioms(fs))
        t0 = time.time()
        r = s.check()
        ctx.obligation('C16.lemma:' + nm, 'contracts of the conversion helpers',
                       'proved' if r == z3.unsat else 'undecided', 'z3', time.time() - t0,
                       detail=None if r == z3.unsat else str(r))


def run(ctx):
    import contracts.helperfuncs  # noqa: F401
    import contracts.libutils     # noqa: F401
    from pyvc.contract import REGISTRY
    from pyvc import run as prun
    for mod in ('contracts.helperfuncs', 'contracts.libutils'):
        cs = [c for c in REGISTRY.values() if 'C16' in c.props and c.__class__.__module__ == mod]
        prun.run_contracts(ctx, cs, mod)
    lemmas(ctx)
    q = ctx.tier == 'quick'
    tasks = [
        dict(fn='ints', kw=dict(vmax=70 if q else 1200, bwmax=8 if q else 12)),
        dict(fn='verilog_wellformed', kw=dict(wmax=5 if q else 7)),
        dict(fn='verilog_all_strings', kw=dict(maxlen=4 if q else 5)),
        dict(fn='signed_and_formats', kw=dict(bwmax=8 if q else 11)),
        dict(fn='twos_comp', kw=dict(bwmax=7 if q else 11)),
        dict(fn='bitpatterns', kw=dict(maxlen=4 if q else 6, sample=None if q else 3)),
    ]
    res = passcheck.pmap(_call, tasks)
    for t, r in zip(tasks, res):
        n = r.get('evaluations', 0)
        if r['failed'] and r.get('crashed'):
            ctx.crashes.append('C16.%s: %s' % (t['fn'], r['observed'][-300:]))
            continue
        if r['failed'] and r.get('classes'):
            # one obligation per failure class, identified by its first failing input
            for cls in sorted(r['classes']):
                c = r['classes'][cls]
                ctx.confirm_and_report('C16.%s[%s]' % (t['fn'], cls), 'call',
                                       dict(module='fam.convcheck', func='replay_class',
                                            kwargs=dict(fn=t['fn'], kw=t['kw'], cls=cls)),
                                       canonical_input=dict(fn=t['fn'], failure_class=cls,
                                                            first_failing_case=c['case']),
                                       function='pyrtl.helperfuncs / pyrtl.wire.Const',
                                       solver_output='%d failing inputs in this class' % c['count'],
                                       text='conversion helper is not range-exact')
        elif r['failed']:
            ctx.confirm_and_report('C16.%s' % t['fn'], 'call',
                                   dict(module='fam.convcheck', func=t['fn'], kwargs=t['kw']),
                                   canonical_input=dict(fn=t['fn'], first_failing_case=r.get('case')),
                                   function='pyrtl.helperfuncs / pyrtl.wire.Const / pyrtl.rtllib.libutils',
                                   text='conversion helper is not range-exact / not inverse')
        ctx.family('C16.' + t['fn'], 'B', instances=1, evaluations=n, nontrivial=n,
                   exhaustive=True,
                   bound='complete enumeration within %r (canonical first failing input reported)' % t['kw'],
                   sample=t)
    ctx.assume('Python int = mathematical integer; len(bin(x))-2 == bit_length (1 for 0); bit-operation '
               'rewrites of DESIGN 3.2 incl. x & 2**k and x & (x-1) == 0 <=> power of two (lean/PyInt.lean)')
    ctx.assume('_convert_verilog_str, formatted_str_to_val/val_to_formatted_str, bitpattern_to_val are string '
               'code outside pyvc: covered by the exhaustive bounded families only')
    return ctx.finish('proof', './check C16', ['z3', 'pyvc', 'int theory of DESIGN 3.2'],
                      'P: integer conversion helpers proved against the representability contract for all '
                      'values/bitwidths; B: string helpers and round trips exhaustively within bounds')
