"""C16 - value conversion helpers are range-exact and mutually inverse."""
from elab import passcheck


def _call(task):
    import traceback
    import importlib
    fn = getattr(importlib.import_module('fam.convcheck'), task['fn'])
    try:
        return fn(**task['kw'])
    except Exception:
        return dict(failed=True, crashed=True, observed=traceback.format_exc()[-900:], expected='no exception')


def run(ctx):
    q = ctx.tier == 'quick'
    tasks = [
        dict(fn='ints', kw=dict(vmax=70 if q else 300, bwmax=8 if q else 10)),
        dict(fn='verilog_wellformed', kw=dict(wmax=5 if q else 7)),
        dict(fn='verilog_all_strings', kw=dict(maxlen=4 if q else 5)),
        dict(fn='signed_and_formats', kw=dict(bwmax=8 if q else 10)),
        dict(fn='twos_comp', kw=dict(bwmax=7 if q else 9)),
        dict(fn='bitpatterns', kw=dict(maxlen=4 if q else 6, sample=None if q else 3)),
    ]
    res = passcheck.pmap(_call, tasks)
    for t, r in zip(tasks, res):
        n = r.get('evaluations', 0)
        if r['failed'] and r.get('crashed'):
            ctx.crashes.append('C16.%s: %s' % (t['fn'], r['observed'][-300:]))
            continue
        if r['failed'] and r.get('classes'):
            # one obligation per failure class, identified by its first failing input
            for cls in sorted(r['classes']):
                c = r['classes'][cls]
                ctx.confirm_and_report('C16.%s[%s]' % (t['fn'], cls), 'call',
                                       dict(module='fam.convcheck', func='replay_class',
                                            kwargs=dict(fn=t['fn'], kw=t['kw'], cls=cls)),
                                       canonical_input=dict(fn=t['fn'], failure_class=cls,
                                                            first_failing_case=c['case']),
                                       function='pyrtl.helperfuncs / pyrtl.wire.Const',
                                       solver_output='%d failing inputs in this class' % c['count'],
                                       text='conversion helper is not range-exact')
        elif r['failed']:
            ctx.confirm_and_report('C16.%s' % t['fn'], 'call',
                                   dict(module='fam.convcheck', func=t['fn'], kwargs=t['kw']),
                                   canonical_input=dict(fn=t['fn'], first_failing_case=r.get('case')),
                                   function='pyrtl.helperfuncs / pyrtl.wire.Const / pyrtl.rtllib.libutils',
                                   text='conversion helper is not range-exact / not inverse')
        ctx.family('C16.' + t['fn'], 'B', instances=1, evaluations=n, nontrivial=n,
                   exhaustive=True,
                   bound='complete enumeration within %r (canonical first failing input reported)' % t['kw'],
                   sample=t)
    return ctx.finish('other', './check C16', ['CPython'],
                      'bounded (level B): executable contracts evaluated exhaustively within the stated bounds')
