"""C05 - exported Verilog (module and testbench) reproduces the simulation."""
import time
from elab import passcheck


def _reraise():
    raise
from fam import designs

FUNCS = 'pyrtl.importexport.output_to_verilog / output_verilog_testbench'


def _exportable(d):
    import pyrtl
    b = designs.build(d)
    return not b.logic_subset('n')


def _module(task):
    import traceback
    design, add_reset = task
    try:
        import z3
        import pyrtl
        from fam import vlogcheck
        from spec import vsem
        from elab.n2smt import Sym, model_int
        block = designs.build(design)
        if block.logic_subset('n'):
            try:
                vlogcheck.export(block, add_reset)
                return dict(task=task, status='nand-accepted')
            except (pyrtl.PyrtlError, pyrtl.PyrtlInternalError):
                return dict(task=task, status='skip')
        try:
            text = vlogcheck.export(block, add_reset)
        except Exception as e:
            return dict(task=task, status='raised', why='%s: %s' % (type(e).__name__, str(e)[:200]))
        try:
            m = vsem.parse_module(text)
        except vsem.VError as e:
            return dict(task=task, status='unparsable', why=str(e))
        probs = vlogcheck.static_problems(block, m, add_reset)
        if probs:
            return dict(task=task, status='static', why=probs[:5])
        nm = vlogcheck.name_map(block)
        sym = Sym(block)
        ins = sym.fresh_inputs('v')
        st = sym.fresh_state('v')
        val, nxt = sym.step(st, ins)
        be = vsem.Z3BE()
        vregs = {nm[r.name]: st['regs'][r] for r in sym.regs}
        vmem = {}
        for mo in sym.mems:
            mn = 'mem_%d' % mo.id
            if isinstance(mo, pyrtl.RomBlock):
                arr = z3.K(z3.BitVecSort(mo.addrwidth), z3.BitVecVal(0, mo.bitwidth))
                for a, (v, w) in m.rom_init.get(mn, {}).items():
                    arr = z3.Store(arr, z3.BitVecVal(a, mo.addrwidth), z3.BitVecVal(v, mo.bitwidth))
                vmem[mn] = arr
            else:
                vmem[mn] = st['mems'][mo]
        vin = {nm[n]: t for n, t in ins.items()}
        try:
            env, nregs, writes = vsem.step(m, vregs, vmem, vin, be)
        except vsem.VError as e:
            return dict(task=task, status='unparsable', why='semantics: %s' % e)
        diffs = []
        for o in sym.outputs:
            diffs.append(env[nm[o.name]] != val[o])
        for r in sym.regs:
            diffs.append(nregs[nm[r.name]] != nxt['regs'][r])
        # memories: apply the module's guarded writes in text order
        pre = []
        vnext = dict(vmem)
        for i, (mn, en, addr, data) in enumerate(writes):
            vnext[mn] = z3.If(en != 0, z3.Store(vnext[mn], addr, data), vnext[mn])
            for (mn2, en2, addr2, data2) in writes[:i]:
                if mn2 == mn:      # two enabled writes to one address: undefined in PyRTL
                    pre.append(z3.Not(z3.And(en != 0, en2 != 0, addr == addr2)))
        for mo in sym.mems:
            if not isinstance(mo, pyrtl.RomBlock):
                diffs.append(vnext['mem_%d' % mo.id] != nxt['mems'][mo])
        s = z3.Solver()
        s.set('timeout', 120000)
        s.add(*pre)
        s.add(z3.Or(*diffs))
        t0 = time.time()
        r = s.check()
        dt = time.time() - t0
        if r == z3.sat:
            mdl = s.model()
            cex = dict(inputs={n: model_int(mdl, t) for n, t in ins.items()},
                       regs={r_.name: model_int(mdl, t) for r_, t in st['regs'].items()}, mems={})
            for mo, arr in st['mems'].items():
                if mo.addrwidth <= 8:
                    cex['mems'][mo.name] = {str(a): model_int(mdl, z3.Select(arr, z3.BitVecVal(a, mo.addrwidth)))
                                            for a in range(2 ** mo.addrwidth)}
            return dict(task=task, status='refuted', cex=cex, solver_s=dt)
        return dict(task=task, status='proved' if r == z3.unsat else 'unknown', solver_s=dt,
                    wide=m.unsized_wide_literals)
    except Exception:
        return dict(task=task, status='crash', why=traceback.format_exc()[-1500:])


def _tb(task):
    import traceback
    from fam import tbcheck
    try:
        return tbcheck.testbench(**task)
    except Exception:
        from vlib.guard import guarded
        return guarded(_reraise)


def verilog_emitters(ctx):
    """P: the `assign` statement the real loop body of _to_verilog_combinational prints for one net, read
    under the IEEE 1364-2001 width rules, equals the documented value - all widths and operand values."""
    from contracts import verilog as V
    from pyvc import engine as E
    from pyvc import run as prun
    fn = 'pyrtl.importexport._to_verilog_combinational'
    vcs = []
    for c in V.CASES:
        try:
            vcs += V.vcs_for_case(c)
        except E.Unsupported as e:
            ctx.obligation('_to_verilog_combinational[%s]:symbolic-execution' % V.case_name(c), fn, 'undecided',
                           'pyvc', 0.0, detail='unsupported construct: %s' % e)
    prun.run_vcs(ctx, fn, vcs, E.source_hash('pyrtl.importexport', '_to_verilog_combinational'),
                 key='_to_verilog_combinational[')
    ctx.assume('Verilog per-net emitters: the text printed by the real loop body is parsed with spec/vsem.py and '
               'evaluated over mathematical integers under the IEEE 1364-2001 expression width rules with symbolic '
               'widths (contracts/verilog.py); operand names are placeholders declared at the width of the wire '
               'they stand for; select parameters and concat arities are the listed shapes; constants, registers, '
               'memories, declarations and the testbench: bounded families')


def run(ctx):
    import fam.vlogcheck  # noqa: F401 (registers odd_names)
    verilog_emitters(ctx)
    fam = designs.family(ctx.tier, ctx.seed) + [{'name': 'odd_names', 'params': {'w': 3}}] + \
        [{'name': 'keyword_names', 'params': {'part': k_, 'parts': 4}} for k_ in range(4)] + \
        [d for d in designs.wide_family(ctx.tier) if d['params'].get('w', 0) in (1, 33, 65) or d['name'] != 'wide_ops']
    # designs exported once, then extended in the same block, then exported again
    fam += [{'name': 'extended_after_export', 'params': {'base': b, 'params': p}} for b, p in
            (('counter', {'w': 3}), ('mixed_alu', {'w': 3}), ('mem_rw', {}), ('rom_list', {}), ('binop', {'op': '-', 'wa': 3, 'wb': 2}))]
    tasks = [(d, ar) for d in fam for ar in (True, False, 'asynchronous')]
    res = passcheck.pmap(_module, tasks)
    cnt = {}
    solver_s = 0.0
    for r in res:
        design, ar = r['task']
        st = r['status']
        cnt[st] = cnt.get(st, 0) + 1
        solver_s += r.get('solver_s', 0.0)
        obl = 'C05.module[%s|add_reset=%s]' % (passcheck._dname(design), ar)
        if st == 'crash':
            ctx.crashes.append(obl + ': ' + r['why'][-400:])
        elif st == 'refuted':
            ctx.confirm_and_report(obl, 'call', dict(module='fam.vlogcheck', func='module_replay',
                                                     kwargs=dict(design=design, add_reset=ar, **r['cex'])),
                                   canonical_input=dict(design=design, add_reset=ar), function=FUNCS,
                                   text='emitted module, read under Verilog-2001 width rules, differs from the simulation')
        elif st in ('static', 'unparsable', 'raised', 'nand-accepted'):
            ctx.confirm_and_report(obl + '.' + st, 'call', dict(module='fam.vlogcheck', func='static_replay',
                                                                kwargs=dict(design=design, add_reset=ar)),
                                   canonical_input=dict(design=design, add_reset=ar, what=st), function=FUNCS,
                                   solver_output=str(r.get('why')),
                                   text='emitted module: declarations / reset values / ROM contents / syntax')
    ctx.family('C05.module_translation_validation', 'PB', instances=len(tasks),
               smt_queries=cnt.get('proved', 0) + cnt.get('refuted', 0), nontrivial=cnt.get('proved', 0),
               solver_s=solver_s,
               bound='design family (nand designs must be refused) x add_reset in {True, False, asynchronous}: '
                     'emitted text parsed, evaluated under Verilog-2001 width rules, one-step equivalence with '
                     'the netlist semantics for all inputs/states + static clauses; verdicts %s' % cnt,
               sample=dict(design=tasks[0][0], add_reset=True))
    # testbench, traces of the three simulators
    tfam = [d for d in fam if d['name'] not in ('wide_ops', 'rand_design') or
            (d['name'] == 'rand_design' and d['params']['seed'] % 3 == 0)]
    tfam = [d for d in tfam if _exportable(d)]
    ttasks = [dict(design=d, simname=s, seed=ctx.seed, add_reset=ar, init_mode=im, default_value=dv)
              for d in tfam for s in ('Simulation', 'FastSimulation', 'CompiledSimulation')
              for ar in ((True,) if ctx.tier == 'quick' else (True, False))
              for (im, dv) in ((1, 0), (2, 1), (0, 0), (3, 0))]
    # traces of simulations of the synthesized copy, memories initialised through the original MemBlocks
    ttasks += [dict(design=d, simname=s, seed=ctx.seed, add_reset=True, init_mode=im, default_value=0, synth=True)
               for d in tfam if d['name'] in ('mem_rw', 'mem_sync', 'mem_two_writes', 'mem_feeds_logic', 'counter')
               for s in ('Simulation', 'FastSimulation', 'CompiledSimulation') for im in (1, 3)]
    tres = passcheck.pmap(_tb, ttasks)
    first = {}
    for t, r in zip(ttasks, tres):
        if r.get('crashed'):
            ctx.crashes.append('C05.testbench %s: %s' % (passcheck._dname(t['design']), r['observed'][-400:]))
        elif r['failed']:
            kind = 'rom' if any('ROM' in p for p in r['observed']) else \
                ('register' if any('register' in p for p in r['observed']) else
                 ('memory' if any('memory' in p for p in r['observed']) else 'inputs'))
            key = '%s/%s' % (t['simname'], kind)
            first.setdefault(key, (t, r))
    for key in sorted(first):
        t, r = first[key]
        ctx.confirm_and_report('C05.testbench[%s]' % key, 'call',
                               dict(module='fam.tbcheck', func='testbench', kwargs=t),
                               canonical_input=dict(what=key, design=t['design']), function=FUNCS,
                               text='testbench does not start from / drive what the simulation did')
    ctx.family('C05.testbench', 'B', instances=len(ttasks), evaluations=len(ttasks), nontrivial=len(ttasks),
               bound='designs x trace source {Simulation, FastSimulation, CompiledSimulation} with non-default '
                     'initial registers/memories: parsed testbench initial state and driven inputs vs the run',
               sample=ttasks[0])
    ctx.assume('Verilog semantics = spec/vsem.py reading of IEEE 1364-2001 for the emitted subset; name mapping '
               'by the exporter\'s own sanitiser in name order; unsized decimal literals read as exact values')
    return ctx.finish('translation_validation', './check C05', ['z3', 'pyvc', 'spec/vsem.py', 'elab/n2smt.py'],
                      'P: the assign statement printed by the real per-net emitter, read under the Verilog-2001 width '
                      'rules, equals the documented value for all widths/values; PB/B: translation validation of the '
                      'emitted module per design (all inputs/states by SMT) and parsed testbench contents')
