"""C01 - Simulation computes the documented cycle semantics of every primitive."""
from elab import passcheck


def _reraise():
    raise
from fam import designs

CONTRACTS_MODULE = 'contracts.simulation'


def _sim_case(task):
    import traceback
    from fam import simcheck
    try:
        return simcheck.run_case(**task)
    except Exception:
        from vlib.guard import guarded
        return guarded(_reraise)


def _fits_default(d, dv):
    return True


def sim_family(ctx, simname, fam, famname, text, function, reps=2, nsteps=6, extra=None):
    tasks = []
    variants = [(0, 0), (1, 0), (2, 1), (3, 0), (1, 1), (2, 0)]
    for d in fam:
        for rep in range(reps):
            ui, dv = variants[rep % len(variants)]
            if dv and not _fits_default(d, dv):
                dv = 0
            t = dict(design=d, simname=simname, seed=ctx.seed * 100 + rep, nsteps=nsteps,
                     use_init=ui, default_value=dv)
            if extra:
                t.update(extra)
            tasks.append(t)
        if simname == 'Simulation' and not extra:
            # inputs handed over as Python bools; a tracer that follows the Outputs only, every wire read by inspect()
            for md in ('bools', 'track_outputs'):
                tasks.append(dict(design=d, simname=simname, seed=ctx.seed * 100 + 7, nsteps=nsteps, use_init=1,
                                  default_value=0, mode=md))
    res = passcheck.pmap(_sim_case, tasks)
    wires = 0
    for t, r in zip(tasks, res):
        wires += r.get('wires', 0) * r.get('cycles', 0)
        if r['failed']:
            ctx.confirm_and_report('%s[%s|seed=%d,init=%s]' % (famname, passcheck._dname(t['design']),
                                                               t['seed'], t['use_init']),
                                   'call', dict(module='fam.simcheck', func='run_case', kwargs=t),
                                   canonical_input=dict(design=t['design'], sim=simname),
                                   function=function, text=text)
    ctx.family(famname, 'B', instances=len(tasks), evaluations=len(tasks), nontrivial=len(tasks),
               bound='%d designs x %d stimulus/initial-state seeds x %d cycles; every traced wire, '
                     'every cycle, final memory contents; %d wire-cycle values compared'
                     % (len(fam), reps, nsteps, wires), sample=tasks[0])
    return res


def run(ctx):
    import contracts.simulation   # noqa: F401  registers contracts
    import contracts.memory       # noqa: F401
    from pyvc.contract import REGISTRY
    from pyvc import run as prun
    cs = [c for c in REGISTRY.values() if 'C01' in c.props]
    prun.run_contracts(ctx, cs, CONTRACTS_MODULE)
    fam = designs.family(ctx.tier, ctx.seed) + designs.wide_family(ctx.tier)
    sim_family(ctx, 'Simulation', fam, 'C01.simulation_vs_refsem',
               'pyrtl.Simulation disagrees with the documented cycle semantics',
               'pyrtl.simulation.Simulation.step', reps=3 if ctx.tier == 'quick' else 10)
    # a cycle on which an rtl assertion fires is still a complete cycle (registers latch): keep stepping after it
    from fam import obscheck
    from vlib.guard import guarded
    n_as = 0
    for k in (0, 1, 3, 6):
        n_as += 1
        r = guarded(lambda: obscheck.assertions(simname='Simulation', fail_at=k))
        if r.get('crashed'):
            ctx.crashes.append('C01.assertion_cycle: ' + r['observed'][-300:])
        elif r['failed']:
            ctx.confirm_and_report('C01.assertion_cycle[fail_at=%d]' % k, 'call',
                                   dict(module='fam.obscheck', func='assertions', kwargs=dict(simname='Simulation', fail_at=k)),
                                   canonical_input=dict(fail_at=k), function='pyrtl.simulation.Simulation.step',
                                   text='the cycle on which an rtl assertion fires is not a complete cycle')
    ctx.family('C01.assertion_cycle', 'B', instances=n_as, evaluations=n_as, nontrivial=n_as,
               bound='a counter with an assertion failing at cycle 0, 1, 3, 6: exception class and cycle, trace and '
                     'inspect of the failing cycle, state after continuing to step', sample=dict(fail_at=3))
    ctx.assume('Python int = mathematical integer; bit-operation rewrites of DESIGN 3.2 '
               '(lean/PyInt.lean); generator expressions evaluated eagerly')
    ctx.assume('WireVector.bitmask cache invariant: a cached _bitmask equals 2**bitwidth-1 '
               '(bitwidth is assignable after caching)')
    ctx.assume('Simulation.step / _initialize / Block.__iter__ glue: see bounded families')
    return ctx.finish('proof', './check C01',
                      ['z3 4.x/5.x', 'pyvc (ast->VC generator written for this task)',
                       'int theory of DESIGN 3.2', 'CPython = Python semantics assumed by pyvc'],
                      'P: per-function contracts discharged by z3 for all widths/values; '
                      'B: whole-simulator runs vs the reference cycle semantics')
