#!/bin/bash
# Offline: overlay virtualenv (python 3.12 of /venv) with z3-solver + jsonschema from the wheelhouse.
set -e
HERE="$(cd "$(dirname "$0")" && pwd)"
cd "$HERE"
if [ -x .venv/bin/python ] && .venv/bin/python -c "import z3, jsonschema" >/dev/null 2>&1; then
  exit 0
fi
rm -rf .venv
/venv/bin/python -m venv .venv
PIP_NO_INDEX=1 .venv/bin/pip install --no-index --find-links /opt/veriftools/wheels z3-solver jsonschema >/dev/null
echo "import site; site.addsitedir('/venv/lib/python3.12/site-packages')" > .venv/lib/python3.12/site-packages/_overlay.pth
PYTHONPATH=/repo .venv/bin/python -c "import z3, pyrtl, pyparsing, jsonschema"
