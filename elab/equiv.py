"""Bounded stand-in (level PB): the real code is executed by CPython for one structural instance,
the resulting netlist is translated with spec/netsem and the contract's postcondition is
decided by z3 for ALL input values, register states and memory contents of that instance."""
import time
import z3
import pyrtl
from pyrtl.memory import RomBlock
from elab.n2smt import Sym, Malformed, model_int
from spec.ops import SV, BVOps


def solve(constraints, timeout_ms=60000):
    s = z3.Solver()
    s.set('timeout', timeout_ms)
    for c in constraints:
        s.add(c)
    t = time.time()
    r = s.check()
    dt = time.time() - t
    return r, (s.model() if r == z3.sat else None), dt


# ------------------------------------------------------------------ combinational contracts
def comb_check(block, spec_fn, params, W, pre_fn=None, timeout_ms=60000, signed_inputs=()):
    """block: built by the real function, Inputs -> Outputs, may contain no state.
    spec_fn(o, params, ins) -> {out name: exact integer value};  the contract is
    zero_extend(out) == spec value (exactness in the declared width).
    Returns (status, model_inputs, solver_s, detail)."""
    sym = Sym(block)
    ins = sym.fresh_inputs('c')
    st = sym.fresh_state('c')
    val, _ = sym.step(st, ins)
    o = BVOps(W)
    sins = {n: SV.lift(t, W) for n, t in ins.items()}
    exp = spec_fn(o, params, sins)
    goals = []
    names = []
    for w in sym.outputs:
        if w.name not in exp:
            continue
        e = exp[w.name]
        e = e if isinstance(e, SV) else SV(e, W)
        if val[w].size() > W:
            # an output wider than every documented width: compared at its own width (the spec value zero-extended)
            goals.append(val[w] == z3.ZeroExt(val[w].size() - W, e.t))
        else:
            goals.append(SV.lift(val[w], W).t == e.t)
        names.append(w.name)
    if not goals:
        return 'vacuous', None, 0.0, 'no outputs constrained'
    cons = [z3.Not(z3.And(*goals))]
    if pre_fn is not None:
        cons.append(pre_fn(o, params, sins))
    r, m, dt = solve(cons, timeout_ms)
    if r == z3.unsat:
        return 'proved', None, dt, names
    if r == z3.sat:
        mi = {n: model_int(m, t) for n, t in ins.items()}
        st_r = {r_.name: model_int(m, t) for r_, t in st['regs'].items()}
        return 'refuted', dict(inputs=mi, regs=st_r), dt, names
    return 'unknown', None, dt, names


# ------------------------------------------------------------------ pass equivalence
def _pieces_term(pieces, lookup, width):
    """Assemble a width-bit term from [(name, lo, w)] pieces of the other side."""
    parts = sorted(pieces, key=lambda p: p[1])
    pos = 0
    ts = []
    for (nm, lo, w) in parts:
        if lo != pos:
            raise Malformed('interface map leaves a gap at bit %d' % pos)
        t = lookup(nm)
        if t.size() != w:
            raise Malformed('interface piece %s has width %d, map says %d' % (nm, t.size(), w))
        ts.append(t)
        pos += w
    if pos != width:
        raise Malformed('interface map covers %d of %d bits' % (pos, width))
    return ts[0] if len(ts) == 1 else z3.Concat(*ts[::-1])


class PassEquiv(object):
    """Source block A is translated *before* the pass runs (terms are immutable snapshots), then
    the real pass runs (possibly in place), then the result B is translated over the same
    input / state variables under the correspondence `corr`."""

    def __init__(self, blockA, k=2):
        self.k = k
        self.symA = Sym(blockA)
        self.A_in = [self.symA.fresh_inputs('t%d' % t) for t in range(k)]
        self.A_st0 = self.symA.fresh_state('s0')
        self.A_vals = []
        st = self.A_st0
        self.A_states = [st]
        for t in range(k):
            v, st = self.symA.step(st, self.A_in[t])
            self.A_vals.append({w.name: v[w] for w in self.symA.outputs})
            self.A_states.append(st)
        self.A_regw = {r.name: r for r in self.symA.regs}
        from fam import passes as _P
        self.A_mem = dict(_P._mems(blockA))               # unique keys (name, or name#id)
        self._mkey = {id(m): k for k, m in self.A_mem.items()}
        self.A_reset = {r.name: r.reset_value for r in self.symA.regs}
        self.A_inw = {w.name: w.bitwidth for w in self.symA.inputs}
        self.A_outw = {w.name: w.bitwidth for w in self.symA.outputs}
        self.A_roms = {m.name: m for m in self.symA.mems if isinstance(m, RomBlock)}

    def compare(self, blockB, corr, timeout_ms=60000, sanction_removed_regs=False):
        """Returns dict(status=proved|refuted|unknown|interface, inductive=bool, cex=..., solver_s)."""
        k = self.k
        self.sanctioned = {}
        symB = Sym(blockB)
        Bin_names = {w.name: w for w in symB.inputs}
        Bout_names = {w.name: w for w in symB.outputs}
        Breg = {r.name: r for r in symB.regs}
        problems = []
        # interface: every A input/output must be mapped; B must have no extra inputs
        used_in = set()
        for nm in self.A_inw:
            for (bn, lo, w) in corr['in'].get(nm, []):
                used_in.add(bn)
        for nm, w in self.A_inw.items():
            ps = corr['in'].get(nm)
            if not ps or any(p[0] not in Bin_names for p in ps):
                problems.append('Input %s not preserved' % nm)
        for nm, w in self.A_outw.items():
            ps = corr['out'].get(nm)
            if not ps or any(p[0] not in Bout_names for p in ps):
                problems.append('Output %s not preserved' % nm)
        extra_in = set(Bin_names) - used_in
        if extra_in:
            problems.append('result has Inputs the source lacks: %s' % sorted(extra_in))
        if problems:
            return dict(status='interface', problems=problems, solver_s=0.0)

        # initial state of B as a function of A's symbolic initial state
        pre = []
        B_regs0 = {}
        mappedB = {}
        for an, pieces in corr['reg'].items():
            at = self.A_st0['regs'][self.A_regw[an]]
            for (bn, lo, w) in pieces:
                if bn in Breg:
                    mappedB[bn] = z3.Extract(lo + w - 1, lo, at)
        removed = []
        for an in self.A_regw:
            pcs = corr['reg'].get(an, [])
            if not pcs or any(p[0] not in Breg for p in pcs):
                removed.append(an)
        free_B = []
        for bn, r in Breg.items():
            if bn in mappedB:
                B_regs0[r] = mappedB[bn]
            else:
                free_B.append(bn)
                B_regs0[r] = z3.BitVec('s0B_r_%s' % bn, r.bitwidth)
        if removed:
            if not sanction_removed_regs:
                return dict(status='interface', solver_s=0.0,
                            problems=['registers %s have no counterpart in the result' % removed])
            # sanctioned difference (C04): an eliminated register starts out holding the
            # constant its next-value computes
            # constant c (the register is unobservable dead logic otherwise and needs no constraint)
            # (cascades: a register fed by an eliminated register is constant given the others)
            changed = True
            while changed:
                changed = False
                for an in removed:
                    if an in self.sanctioned:
                        continue
                    r = self.A_regw[an]
                    nxt = self.A_states[1]['regs'][r]
                    r0, m0, _ = solve(list(pre), 5000)
                    if m0 is None:
                        continue
                    c = m0.eval(nxt, model_completion=True)
                    r1, _, _ = solve(pre + [nxt != c], timeout_ms)
                    if r1 == z3.unsat:
                        pre.append(self.A_st0['regs'][r] == c)
                        self.sanctioned[an] = c.as_long()
                        changed = True
        B_mems0 = {}
        for m in symB.mems:
            if isinstance(m, RomBlock):
                continue
            src = [an for an, bm in corr['mem'].items() if bm is m]
            if src and self.A_mem[src[0]] in self.A_st0['mems']:
                B_mems0[m] = self.A_st0['mems'][self.A_mem[src[0]]]
            else:
                B_mems0[m] = z3.Array('s0B_m_%s' % m.name, z3.BitVecSort(m.addrwidth),
                                      z3.BitVecSort(m.bitwidth))
        stB = dict(regs=B_regs0, mems=B_mems0)
        diffs = []
        for t in range(k):
            insB = {}
            for an, pieces in corr['in'].items():
                at = self.A_in[t][an]
                for (bn, lo, w) in pieces:
                    insB[bn] = z3.Extract(lo + w - 1, lo, at)
            vB, stB = symB.step(stB, insB)
            outB = {w.name: vB[w] for w in symB.outputs}
            for an, aw in self.A_outw.items():
                bt = _pieces_term(corr['out'][an], lambda nm: outB[nm], aw)
                diffs.append(self.A_vals[t][an] != bt)
        r, m, dt = solve(pre + [z3.Or(*diffs)] if diffs else [z3.BoolVal(False)], timeout_ms)
        res = dict(solver_s=dt, removed_regs=removed, free_result_regs=free_B,
                   sanctioned=getattr(self, 'sanctioned', {}))
        if r == z3.sat:
            cex = dict(
                steps=[{n: model_int(m, t) for n, t in self.A_in[t_].items()} for t_ in range(k)],
                regs={r_.name: model_int(m, t) for r_, t in self.A_st0['regs'].items()},
                mems={}, regsB={bn: model_int(m, B_regs0[Breg[bn]]) for bn in free_B})
            for mem, arr in self.A_st0['mems'].items():
                if mem.addrwidth <= 8:
                    cex['mems'][self._mkey.get(id(mem), mem.name)] = {a: model_int(m, z3.Select(arr, z3.BitVecVal(a, mem.addrwidth)))
                                             for a in range(2 ** mem.addrwidth)}
                else:
                    cex['mems'][self._mkey.get(id(mem), mem.name)] = {}
            res.update(status='refuted', cex=cex)
            return res
        if r != z3.unsat:
            res.update(status='unknown')
            return res
        # inductive step: next states correspond => unbounded in time
        ind = []
        stA1 = self.A_states[1]
        # recompute B one step from the initial correspondence
        stB0 = dict(regs=B_regs0, mems=B_mems0)
        insB = {}
        for an, pieces in corr['in'].items():
            for (bn, lo, w) in pieces:
                insB[bn] = z3.Extract(lo + w - 1, lo, self.A_in[0][an])
        _, stB1 = symB.step(stB0, insB)
        for an, pieces in corr['reg'].items():
            if an in removed:
                continue
            at = stA1['regs'][self.A_regw[an]]
            for (bn, lo, w) in pieces:
                ind.append(stB1['regs'][Breg[bn]] != z3.Extract(lo + w - 1, lo, at))
        for an, bm in corr['mem'].items():
            am = self.A_mem[an]
            if am in stA1['mems'] and bm in stB1['mems']:
                ind.append(stA1['mems'][am] != stB1['mems'][bm])
        # reset values correspond exactly (an explicit 0 is not the same as "unspecified": the
        # latter takes the simulator's default_value)
        resetprob = []
        for an, pieces in corr['reg'].items():
            if an in removed:
                continue
            arv = self.A_reset.get(an)
            for (bn, lo, w) in pieces:
                brv = Breg[bn].reset_value
                exp = None if arv is None else (arv >> lo) & ((1 << w) - 1)
                if brv != exp:
                    resetprob.append('%s.reset_value=%r but source %s.reset_value=%r (bits %d..%d => %r)'
                                     % (bn, brv, an, arv, lo, lo + w - 1, exp))
        if resetprob:
            res.update(status='resetmismatch', problems=resetprob[:6])
            return res
        # started from reset: each side takes its own reset values (None -> default 0)
        def _rv(r):
            return z3.BitVecVal((r.reset_value or 0) % (2 ** r.bitwidth), r.bitwidth)
        stA = dict(regs={r: (z3.BitVecVal(self.sanctioned[r.name], r.bitwidth)
                             if r.name in getattr(self, 'sanctioned', {}) else _rv(r))
                         for r in self.symA.regs}, mems=dict(self.A_st0['mems']))
        stBr = dict(regs={r: _rv(r) for r in symB.regs}, mems=B_mems0)
        rdiffs = []
        for t in range(k):
            vA, stA = self.symA.step(stA, self.A_in[t])
            insB = {}
            for an, pieces in corr['in'].items():
                for (bn, lo, w) in pieces:
                    insB[bn] = z3.Extract(lo + w - 1, lo, self.A_in[t][an])
            vB, stBr = symB.step(stBr, insB)
            outB = {w.name: vB[w] for w in symB.outputs}
            for w in self.symA.outputs:
                bt = _pieces_term(corr['out'][w.name], lambda nm: outB[nm], w.bitwidth)
                rdiffs.append(vA[w] != bt)
        if rdiffs and self.symA.regs:
            r3, m3, dt3 = solve([z3.Or(*rdiffs)], timeout_ms)
            res['solver_s'] += dt3
            if r3 == z3.sat:
                cex = dict(steps=[{n: model_int(m3, t) for n, t in self.A_in[t_].items()}
                                  for t_ in range(k)], regs=dict(getattr(self, 'sanctioned', {})),
                           mems={}, regsB={}, from_reset=True)
                for mem, arr in self.A_st0['mems'].items():
                    if mem.addrwidth <= 8:
                        cex['mems'][self._mkey.get(id(mem), mem.name)] = {a: model_int(m3, z3.Select(arr, z3.BitVecVal(a, mem.addrwidth)))
                                                 for a in range(2 ** mem.addrwidth)}
                res.update(status='refuted', cex=cex)
                return res
            if r3 != z3.unsat:
                res.update(status='unknown')
                return res
        inductive = False
        if not free_B:
            r2, _, dt2 = solve(pre + [z3.Or(*ind)] if ind else [z3.BoolVal(False)], timeout_ms)
            res['solver_s'] += dt2
            inductive = (r2 == z3.unsat)
        res.update(status='proved', inductive=inductive)
        return res


def structural_info(block):
    ops = {}
    for n in block.logic:
        ops[n.op] = ops.get(n.op, 0) + 1
    return ops
