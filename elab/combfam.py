"""Family driver for combinational builder contracts (level PB)."""
import time
import traceback
from elab.passcheck import pmap


def _one(task):
    kind, params, opts = task
    t0 = time.time()
    try:
        import pyrtl
        import fam.allcases  # noqa: F401
        from fam import CASES
        from elab.equiv import comb_check
        from elab.constmode import const_inputs
        c = CASES[kind]
        pyrtl.reset_working_block()
        cm = params.get('_const') if isinstance(params, dict) else None
        try:
            with const_inputs(cm) as consts:
                built = c.build(params)
        except Exception as e:
            if cm:      # not every builder accepts a constant in every position: no verdict
                return dict(task=task, status='skip', why='const twin not buildable: %s' % type(e).__name__)
            return dict(task=task, status='raised', why='%s: %s' % (type(e).__name__, str(e)[:300]))
        block = pyrtl.working_block()
        if cm and not consts:
            return dict(task=task, status='skip', why='const twin identical to the plain case')
        lenprob = None
        if c.lens is not None and isinstance(built, dict):
            exp = c.lens(params)
            bad = {k: (built.get(k), v) for k, v in exp.items() if built.get(k) != v}
            if bad:
                lenprob = bad
        if lenprob and any(k in lenprob for k in ('rows', 'cols')):
            # the result does not even have the documented shape: the value comparison is moot
            return dict(task=task, status='shape', lenprob=lenprob, nets=len(block.logic),
                        wall=time.time() - t0)
        W = c.W(params) if callable(c.W) else (c.W or 64)
        spec, pre = c.spec, c.pre
        if cm:
            import z3
            from elab.equiv import SV

            def _with(fn):
                if fn is None:
                    return None
                def wrapped(o, p, ins):
                    extra = {}
                    for n, (v, bw) in consts.items():
                        extra[n] = ins[bw] if v == 'alias' else SV.lift(z3.BitVecVal(v, bw), W)
                    return fn(o, p, dict(ins, **extra))
                return wrapped
            spec, pre = _with(c.spec), _with(c.pre)
        status, cex, dt, names = comb_check(block, spec, params, W, pre_fn=pre,
                                            timeout_ms=opts.get('timeout_ms', 60000))
        if cm and status == 'refuted':
            cex['consts'] = {n: (bw if v == 'alias' else v) for n, (v, bw) in consts.items()}
        return dict(task=task, status=status, cex=cex, solver_s=dt, outputs=names, lenprob=lenprob,
                    nets=len(block.logic), wall=time.time() - t0)
    except Exception:
        return dict(task=task, status='crash', why=traceback.format_exc()[-1500:])


def len_replay(kind, params):
    """Replayer: documented result lengths."""
    import pyrtl
    import fam.allcases  # noqa: F401
    from fam import CASES
    c = CASES[kind]
    pyrtl.reset_working_block()
    from elab.constmode import const_inputs
    with const_inputs(params.get('_const')):
        built = c.build(params)
    exp = c.lens(params)
    bad = {k: built.get(k) for k, v in exp.items() if built.get(k) != v}
    return dict(failed=bool(bad), observed=bad, expected={k: exp[k] for k in bad})


def run_comb_family(ctx, famname, cases, function, text, opts=None):
    opts = opts or {}
    if getattr(ctx, 'only', None):
        cases = [c for c in cases if ctx.only in famname or ctx.only in c[0]]
    tasks = [(k, p, opts) for (k, p) in cases]
    every = opts.get('const_twins')
    if every:
        # constant-operand twins of every `every`-th case (one operand position, or all of them)
        for i, (k, p) in enumerate(cases):
            if i % every == 0 and isinstance(p, dict) and '_const' not in p:
                which = ['all', 0, 'alias', 1, 2, 'alias'][(i // every) % 6]
                tasks.append((k, dict(p, _const=dict(which=which, seed=i + getattr(ctx, 'seed', 0))), opts))
    results = pmap(_one, tasks)
    solver_s = 0.0
    nq = 0
    nout = 0
    crashes = []
    lenprobs = {}
    for r in results:
        kind, params, _ = r['task']
        obl = '%s[%s(%s)]' % (famname, kind, ','.join('%s=%s' % kv for kv in sorted(params.items())))
        solver_s += r.get('solver_s', 0.0)
        st = r['status']
        if st in ('proved', 'refuted', 'unknown'):
            nq += 1
            nout += len(r.get('outputs') or [])
        if r.get('lenprob'):
            for oname in sorted(r['lenprob']):
                lenprobs.setdefault(oname, []).append((kind, params, r['lenprob'][oname]))
        if st == 'refuted':
            ctx.confirm_and_report(obl, 'comb', dict(kind=kind, params=params,
                                                     inputs=r['cex']['inputs'],
                                                     regs=r['cex'].get('regs')),
                                   canonical_input=dict(kind=kind, params=params),
                                   function=function, solver_output='sat: %r' % r['cex'], text=text)
        elif st == 'raised':
            ctx.confirm_and_report(obl, 'build_raises', dict(kind=kind, params=params),
                                   canonical_input=dict(kind=kind, params=params),
                                   function=function, solver_output=r['why'], text=text)
        elif st == 'unknown':
            ctx.notes.append('%s: solver unknown' % obl)
        elif st == 'vacuous':
            crashes.append((obl, 'no output constrained'))
        elif st == 'crash':
            crashes.append((obl, r['why']))
    # documented result widths: one obligation per output kind, identified by the first failing
    # instance in enumeration order (so a different failing instance is a different finding)
    for oname in sorted(lenprobs):
        kind, params, (got, exp) = lenprobs[oname][0]
        ctx.confirm_and_report('%s.len[%s]' % (famname, oname), 'call',
                               dict(module='elab.combfam', func='len_replay',
                                    kwargs=dict(kind=kind, params=params)),
                               canonical_input=dict(kind=kind, params=params, output=oname,
                                                    len=got, documented=exp),
                               function=function,
                               solver_output='%d instances of this run have the wrong length'
                                             % len(lenprobs[oname]),
                               text=text + ' (documented result width)')
    if crashes:
        raise RuntimeError('comb family worker crashed: %s\n%s' % crashes[0])
    sample = None
    for r in results:
        if r['status'] == 'proved':
            sample = dict(kind=r['task'][0], params=r['task'][1], outputs=r.get('outputs'),
                          nets=r.get('nets'))
            break
    ctx.family(famname, 'PB', instances=len(tasks), smt_queries=nq,
               nontrivial=sum(1 for r in results if r['status'] in ('proved', 'refuted')),
               bound='structural instances enumerated; for each, all operand values decided by SMT '
                     '(%d outputs)' % nout, solver_s=solver_s, sample=sample)
    return results
