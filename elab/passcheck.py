"""Family driver for pass-level contracts: (design x pass) instances in a process pool."""
import multiprocessing
import os
import time
import traceback


def pmap(fn, tasks, procs=None):
    procs = procs or int(os.environ.get('VERIF_PROCS', '16'))
    if len(tasks) <= 1 or procs <= 1:
        return [fn(t) for t in tasks]
    ctx = multiprocessing.get_context('fork')
    with ctx.Pool(min(procs, len(tasks))) as p:
        return p.map(fn, tasks, chunksize=1)


def _one(task):
    """Worker: build design (with 'pre' passes), snapshot, run pass, compare."""
    t0 = time.time()
    design, passname, k, opts = task
    try:
        import pyrtl
        from fam import designs, passes
        from elab.equiv import PassEquiv, structural_info
        from elab.n2smt import Malformed
        A = designs.build(design)
        try:
            for pre in design.get('pre', []):
                A, _ = passes.get(pre)(A)
        except passes.MapError as e:
            return dict(task=task, status='maperror', why='in the preparatory pass: %s' % e)
        nets_before = len(A.logic)
        try:
            pe = PassEquiv(A, k=k)
        except Malformed as e:
            return dict(task=task, status='skip', why='source malformed: %s' % e)
        try:
            B, corr = passes.get(passname)(A)
        except passes.MapError as e:
            return dict(task=task, status='maperror', why=str(e))
        except Exception as e:
            return dict(task=task, status='raised', why='%s: %s' % (type(e).__name__, str(e)[:300]))
        try:
            B.sanity_check()
        except Exception as e:
            return dict(task=task, status='insane', why='%s: %s' % (type(e).__name__, str(e)[:300]))
        post = None
        if opts.get('post'):
            import importlib
            mod, fn = opts['post'].rsplit('.', 1)
            post = getattr(importlib.import_module(mod), fn)(B, design, passname)
        try:
            res = pe.compare(B, corr, timeout_ms=opts.get('timeout_ms', 60000),
                             sanction_removed_regs=opts.get('sanction', False))
        except Malformed as e:
            return dict(task=task, status='insane', why='result not translatable: %s' % e)
        if res.get('status') == 'proved' and not res.get('inductive') and not res.get('free_result_regs') \
                and not opts.get('_deepened'):
            # next states do not correspond although the outputs agree for k cycles: a difference in state
            # may need more cycles to reach an Output (chained memories / registers) - look deeper once
            r2 = _one((design, passname, k + 3, dict(opts, _deepened=True)))
            if r2.get('status') in ('refuted', 'proved'):
                r2['task'] = task
                r2['deepened_to'] = k + 3
                return r2
        res['task'] = task
        res['post'] = post
        res['ops'] = structural_info(B)
        res['nets'] = (nets_before, len(B.logic))
        res['wall'] = time.time() - t0
        return res
    except Exception:
        return dict(task=task, status='crash', why=traceback.format_exc()[-1500:])


def design_with_pre(design, pre):
    d = dict(design)
    if pre:
        d['pre'] = list(pre)
    return d


def run_family(ctx, famname, tasks, function, text):
    """tasks: [(design, passname, k, opts)].  Reports violations through ctx (after replay on the
    real code).  Returns list of results."""
    if getattr(ctx, 'only', None):
        tasks = [t for t in tasks if ctx.only in famname or ctx.only in t[1] or ctx.only in t[0]['name']]
    t0 = time.time()
    results = pmap(_one, tasks)
    solver_s = 0.0
    proved = inductive = 0
    crashes = []
    for r in results:
        design, passname, k, opts = r['task']
        solver_s += r.get('solver_s', 0.0)
        obl = '%s[%s|%s]' % (famname, passname, _dname(design))
        st = r['status']
        if st == 'proved':
            proved += 1
            inductive += 1 if r.get('inductive') else 0
            if r.get('post'):
                ctx.confirm_and_report(obl + '.post', 'call',
                                       dict(module=opts['post'].rsplit('.', 1)[0],
                                            func='replay_post',
                                            kwargs=dict(design=design, passname=passname,
                                                        postfn=opts['post'])),
                                       canonical_input=dict(design=design, passname=passname,
                                                            problem=r['post']),
                                       function=function, text=text)
        elif st == 'refuted':
            cex = r['cex']
            ctx.confirm_and_report(obl, 'pass_equiv',
                                   dict(design=design, passname=passname, steps=cex['steps'],
                                        regs=cex['regs'], mems=cex['mems'],
                                        regsB=cex.get('regsB', {})),
                                   canonical_input=dict(design=design, passname=passname),
                                   function=function, solver_output='sat: %r' % cex, text=text)
        elif st in ('raised', 'insane', 'maperror', 'interface'):
            ctx.confirm_and_report(obl, 'pass_equiv',
                                   dict(design=design, passname=passname,
                                        steps=[_zero_inputs(design)], regs={}, mems={}),
                                   canonical_input=dict(design=design, passname=passname),
                                   function=function,
                                   solver_output='%s: %s' % (st, r.get('why') or r.get('problems')),
                                   text=text)
        elif st == 'resetmismatch':
            ctx.confirm_and_report(obl + '.reset', 'reset_corr',
                                   dict(design=design, passname=passname),
                                   canonical_input=dict(design=design, passname=passname,
                                                        what='reset values'),
                                   function=function, solver_output=str(r.get('problems')),
                                   text=text + ' (register reset values not carried over)')
        elif st == 'unknown':
            ctx.notes.append('%s: solver unknown' % obl)
        elif st == 'skip':
            ctx.notes.append('%s: %s' % (obl, r.get('why')))
        elif st == 'crash':
            crashes.append((obl, r['why']))
    if crashes:
        raise RuntimeError('worker crashed: %s\n%s' % crashes[0])
    sample = None
    for r in results:
        if r['status'] == 'proved':
            sample = dict(design=r['task'][0], pass_=r['task'][1], cycles=r['task'][2],
                          inductive=r.get('inductive'), result_ops=r.get('ops'), nets=r.get('nets'))
            break
    ctx.family(famname, 'PB', instances=len(tasks), smt_queries=len(tasks) + inductive,
               nontrivial=sum(1 for r in results if r['status'] in ('proved', 'refuted')
                              and r.get('nets', (1, 1))[0] > 0),
               bound='k-cycle outputs from an arbitrary corresponding state for all inputs/states; '
                     '%d of %d instances additionally inductive (unbounded in time)'
                     % (inductive, len(tasks)),
               solver_s=solver_s, sample=sample)
    return results


def _dname(d):
    s = d['name'] + '(' + ','.join('%s=%s' % kv for kv in sorted(d.get('params', {}).items())) + ')'
    if d.get('pre'):
        s = '+'.join(d['pre']) + '>' + s
    return s


def _zero_inputs(design):
    import pyrtl
    from fam import designs
    b = designs.build(design)
    return {w.name: 0 for w in b.wirevector_subset(pyrtl.Input)}
