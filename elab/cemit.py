"""Translation validation of CompiledSimulation's per-net C emitters (level PB).

The REAL emitter methods (`CompiledSimulation._build_*`, with the real `_limbs`, `_makemask`,
`_getarglimb`) are run on one net; the C statements they write are parsed (the straight-line
subset they emit) and executed symbolically over uint64 limbs; the destination limbs are compared
with spec/netsem for ALL operand values by z3.  No gcc involved.

C semantics assumed: every variable is uint64_t (wrap-around arithmetic), comparisons and
logical operators yield 0/1, shifts are by constants < 64, `mul128(a, b, lo, hi)` assigns the
exact 128-bit product (the inline asm of the generated file).  For multi-limb multiplication the
64x64->128 product is an uninterpreted function on BOTH sides (the check is then the limb /
carry structure, with mul128 exact by assumption)."""
import re
import z3

TOK = re.compile(r'\s*(0[xX][0-9a-fA-F]+|\d+|[A-Za-z_]\w*|<<|>>|==|!=|&&|\|\||\+=|[-+*&|^~!<>=()\[\],;{}])')


def tokenize(s):
    out = []
    pos = 0
    s = s.strip()
    while pos < len(s):
        m = TOK.match(s, pos)
        if not m:
            raise ValueError('cannot tokenize C: %r' % s[pos:pos + 30])
        out.append(m.group(1))
        pos = m.end()
    return out


BINPREC = [('||',), ('&&',), ('|',), ('^',), ('&',), ('==', '!='), ('<', '>'), ('<<', '>>'),
           ('+', '-'), ('*',)]


def bv(v):
    return z3.BitVecVal(v, 64)


def b2bv(c):
    return z3.If(c, bv(1), bv(0))


class CEval(object):
    def __init__(self, env, mulfn=None):
        self.env = env            # name or 'name[i]' -> BV64
        self.mulfn = mulfn

    # ---- expressions
    def parse_expr(self, toks, i, level=0):
        if level == len(BINPREC):
            return self.parse_unary(toks, i)
        lhs, i = self.parse_expr(toks, i, level + 1)
        while i < len(toks) and toks[i] in BINPREC[level]:
            op = toks[i]
            rhs, i = self.parse_expr(toks, i + 1, level + 1)
            lhs = self.binop(op, lhs, rhs)
        return lhs, i

    def binop(self, op, a, b):
        if op == '+':
            return a + b
        if op == '-':
            return a - b
        if op == '*':
            return a * b
        if op == '&':
            return a & b
        if op == '|':
            return a | b
        if op == '^':
            return a ^ b
        if op == '<<':
            return a << b
        if op == '>>':
            return z3.LShR(a, b)
        if op == '<':
            return b2bv(z3.ULT(a, b))
        if op == '>':
            return b2bv(z3.UGT(a, b))
        if op == '==':
            return b2bv(a == b)
        if op == '!=':
            return b2bv(a != b)
        if op == '&&':
            return b2bv(z3.And(a != 0, b != 0))
        if op == '||':
            return b2bv(z3.Or(a != 0, b != 0))
        raise ValueError(op)

    def parse_unary(self, toks, i):
        t = toks[i]
        if t == '~':
            v, i = self.parse_unary(toks, i + 1)
            return ~v, i
        if t == '!':
            v, i = self.parse_unary(toks, i + 1)
            return b2bv(v == 0), i
        if t == '-':
            v, i = self.parse_unary(toks, i + 1)
            return -v, i
        if t == '(':
            v, i = self.parse_expr(toks, i + 1)
            if toks[i] != ')':
                raise ValueError('expected )')
            return v, i + 1
        if re.match(r'0[xX]', t):
            return bv(int(t, 16)), i + 1
        if t.isdigit():
            return bv(int(t)), i + 1
        if re.match(r'[A-Za-z_]', t):
            name = t
            i += 1
            if i < len(toks) and toks[i] == '[':
                idx, i = self.parse_const(toks, i + 1)
                if toks[i] != ']':
                    raise ValueError('expected ]')
                name = '%s[%d]' % (name, idx)
                i += 1
            if name not in self.env:
                raise ValueError('C reads undefined variable %s' % name)
            return self.env[name], i
        raise ValueError('unexpected token %r' % t)

    def parse_const(self, toks, i):
        t = toks[i]
        if t.isdigit():
            return int(t), i + 1
        raise ValueError('non-constant array index %r' % t)

    # ---- statements
    def lvalue(self, toks, i):
        name = toks[i]
        i += 1
        if i < len(toks) and toks[i] == '[':
            idx, i = self.parse_const(toks, i + 1)
            name = '%s[%d]' % (name, idx)
            i += 1
        return name, i

    def exec_simple(self, toks):
        """one statement without trailing ';'"""
        if not toks:
            return
        if toks[0] == 'mul128':
            # mul128(a, b, lo, hi)
            a, i = self.parse_expr(toks, 2)
            b, i = self.parse_expr(toks, i + 1)
            lo, hi = toks[i + 1], toks[i + 3]
            p = self.mulfn(a, b)
            self.env[lo] = z3.Extract(63, 0, p)
            self.env[hi] = z3.Extract(127, 64, p)
            return
        name, i = self.lvalue(toks, 0)
        op = toks[i]
        v, j = self.parse_expr(toks, i + 1)
        if j != len(toks):
            raise ValueError('trailing tokens in C statement: %r' % toks[j:])
        if op == '=':
            self.env[name] = v
        elif op == '+=':
            self.env[name] = self.env[name] + v
        else:
            raise ValueError('unsupported assignment operator %r' % op)

    def run(self, lines):
        """lines as written by the emitter; supports `if (c) {` ... `} else {` ... `}`."""
        toks = []
        for ln in lines:
            ln = ln.split('//')[0]
            toks.extend(tokenize(ln))
        self.exec_block(toks, 0, len(toks))

    def exec_block(self, toks, i, end):
        while i < end:
            if toks[i] == 'if':
                cond, j = self.parse_expr(toks, i + 1)          # parenthesised
                assert toks[j] == '{'
                k = self.match_brace(toks, j)
                then_env = dict(self.env)
                sub = CEval(then_env, self.mulfn)
                sub.exec_block(toks, j + 1, k)
                else_env = dict(self.env)
                nxt = k + 1
                if nxt < end and toks[nxt] == 'else':
                    assert toks[nxt + 1] == '{'
                    k2 = self.match_brace(toks, nxt + 1)
                    sub2 = CEval(else_env, self.mulfn)
                    sub2.exec_block(toks, nxt + 2, k2)
                    nxt = k2 + 1
                for key in set(then_env) | set(else_env):
                    a, b = then_env.get(key), else_env.get(key)
                    if a is None or b is None:
                        continue
                    self.env[key] = a if a is b else z3.If(cond != 0, a, b)
                i = nxt
            else:
                j = i
                while toks[j] != ';':
                    j += 1
                self.exec_simple(toks[i:j])
                i = j + 1

    def match_brace(self, toks, j):
        depth = 0
        for k in range(j, len(toks)):
            if toks[k] == '{':
                depth += 1
            elif toks[k] == '}':
                depth -= 1
                if depth == 0:
                    return k
        raise ValueError('unbalanced braces')


def limbs_of(term, width):
    """BV(width) -> list of BV64 limbs (zero-extended: the representation invariant)."""
    n = (width + 63) // 64
    t = z3.ZeroExt(64 * n - width, term) if 64 * n > width else term
    return [z3.Extract(64 * i + 63, 64 * i, t) for i in range(n)]


def emit_net(op, op_param, argws, dw):
    """Run the real emitter for one net. Returns (lines, arg wires, dest wire)."""
    import pyrtl
    from pyrtl.compilesim import CompiledSimulation
    pyrtl.reset_working_block()
    args = tuple(pyrtl.WireVector(w, 'arg%d' % i) for i, w in enumerate(argws))
    if op == '*' and op_param is not None:
        # ('const', index, value): that operand is a Const (the emitter may specialise on its value)
        _, ci, cv = op_param
        args = tuple(pyrtl.Const(cv, bitwidth=argws[i]) if i == ci else a for i, a in enumerate(args))
        op_param = None
    dest = pyrtl.WireVector(dw, 'dest')
    cs = CompiledSimulation.__new__(CompiledSimulation)
    cs._dll = None
    cs._dir = None
    cs.varname = {a: 'a%d' % i for i, a in enumerate(args)}
    cs.varname[dest] = 'd'
    lines = []
    builders = {'w': cs._build_wire, '~': cs._build_not, '&': cs._build_bitwise,
                '|': cs._build_bitwise, '^': cs._build_bitwise, 'n': cs._build_nand,
                '=': cs._build_eq, '<': cs._build_cmp, '>': cs._build_cmp, 'x': cs._build_mux,
                '+': cs._build_add, '-': cs._build_sub, '*': cs._build_mul,
                'c': cs._build_concat, 's': cs._build_select}
    builders[op](lines.append, op, op_param, args, dest)
    return lines, args, dest


def check_net(op, op_param, argws, dw, timeout_ms=60000):
    """-> dict(status=proved|refuted|unknown|error, cex=..., solver_s=..., lines=[...])"""
    import time
    from spec.netsem import netsem_bv
    try:
        lines, args, dest = emit_net(op, op_param, argws, dw)
    except Exception as e:
        return dict(status='raised', why='%s: %s' % (type(e).__name__, str(e)[:200]))
    avars = [z3.BitVec('a%d' % i, w) for i, w in enumerate(argws)]
    if op == '*' and op_param is not None:
        avars[op_param[1]] = z3.BitVecVal(op_param[2], argws[op_param[1]])
    env = {}
    for i, (v, w) in enumerate(zip(avars, argws)):
        for n, l in enumerate(limbs_of(v, w)):
            env['a%d[%d]' % (i, n)] = l
    for nm in ('tmp', 'carry', 'tmphi', 'tmplo'):
        env[nm] = z3.BitVec('uninit_' + nm, 64)        # uninitialised temporaries
    multi = op == '*' and max(argws) > 64
    MUL = z3.Function('mul64x64', z3.BitVecSort(64), z3.BitVecSort(64), z3.BitVecSort(128))

    mul_apps = []

    def mulfn(a, b):
        if multi:
            t = MUL(a, b)
            mul_apps.append(t)
            return t
        return z3.ZeroExt(64, a) * z3.ZeroExt(64, b)
    ev = CEval(env, mulfn)
    try:
        ev.run(lines)
    except Exception as e:
        return dict(status='error', why='C subset parser: %s' % e, lines=lines)
    nl = (dw + 63) // 64
    try:
        dl = [env['d[%d]' % n] for n in range(nl)]
    except KeyError as e:
        return dict(status='refuted', cex=None, why='destination limb %s never assigned' % e,
                    lines=lines, solver_s=0.0)
    got_full = z3.Concat(*dl[::-1]) if nl > 1 else dl[0]
    if multi:
        # spec over the same uninterpreted 64x64 product
        W = 64 * ((argws[0] + 63) // 64 + (argws[1] + 63) // 64) + 64
        acc = z3.BitVecVal(0, W)
        la, lb = limbs_of(avars[0], argws[0]), limbs_of(avars[1], argws[1])
        for i, x in enumerate(la):
            for j, y in enumerate(lb):
                mul_apps.append(MUL(x, y))
                acc = acc + (z3.ZeroExt(W - 128, MUL(x, y)) << (64 * (i + j)))
        spec = z3.Extract(dw - 1, 0, acc)
    else:
        spec = netsem_bv(op, None if op == '*' else op_param, avars, dw)
    goal = got_full == z3.ZeroExt(64 * nl - dw, spec) if 64 * nl > dw else got_full == spec
    s = z3.Solver()
    s.set('timeout', timeout_ms)
    s.add(z3.Not(goal))
    bits = {}
    keep = []              # keep the limb terms alive: ids of freed terms are recycled
    for i, w in enumerate(argws):
        for n, l in enumerate(limbs_of(avars[i], w)):
            keep.append(l)
            bits[l.get_id()] = min(64, w - 64 * n)
    for t in mul_apps:
        # the only facts about the exact product the carry chain relies on:
        # a*b <= (2**ka - 1) * (2**kb - 1) for limbs of ka / kb significant bits
        ka = bits.get(t.arg(0).get_id(), 64)
        kb = bits.get(t.arg(1).get_id(), 64)
        s.add(z3.ULE(t, z3.BitVecVal((2 ** ka - 1) * (2 ** kb - 1), 128)))
        s.add(z3.Implies(z3.Or(t.arg(0) == 0, t.arg(1) == 0), t == 0))
    t0 = time.time()
    r = s.check()
    dt = time.time() - t0
    if r == z3.unsat:
        return dict(status='proved', solver_s=dt, nlines=len(lines))
    if r == z3.sat:
        m = s.model()
        cex = [m.eval(v, model_completion=True).as_long() for v in avars]
        return dict(status='refuted' if not multi else 'refuted-abstract', cex=cex, solver_s=dt,
                    lines=lines)
    return dict(status='unknown', solver_s=dt)
