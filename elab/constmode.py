"""Constant-operand and alias twins of builder cases: the same case is built with some of its `pyrtl.Input`
operands replaced by `pyrtl.Const` objects of the same width (helpers accept any wire-like operand;
a fast path for constants must compute the same bits).  The values are derived from (name, seed)."""
import contextlib
import random


def _value(name, bw, seed):
    r = random.Random('%s/%d' % (name, seed))
    pick = r.randrange(6)
    full = (1 << bw) - 1
    return [r.getrandbits(bw), full, 1 << (bw - 1), r.getrandbits(bw) | (1 << (bw - 1)),
            (0xAAAAAAAAAAAAAAAAAAAAAAAA & full), r.getrandbits(bw)][pick]


@contextlib.contextmanager
def const_inputs(cm):
    """cm: None (no-op) or dict(which='all' | int, seed=int).  Yields {name: (value, bitwidth)}."""
    import pyrtl
    consts = {}
    if not cm:
        yield consts
        return
    real = pyrtl.Input
    count = [0]
    firsts = {}
    if cm.get('which') == 'alias':
        # alias twin: every Input of a width that was seen before IS the first Input of that width (one
        # wire in several operand positions); `consts` then maps the name to ('alias', first name)
        def fake_alias(bitwidth=None, name='', block=None):
            if bitwidth is not None and name and bitwidth in firsts:
                consts[name] = ('alias', firsts[bitwidth].name)
                return firsts[bitwidth]
            w = real(bitwidth, name) if block is None else real(bitwidth, name, block=block)
            if bitwidth is not None and name:
                firsts[bitwidth] = w
            return w
        pyrtl.Input = fake_alias
        try:
            yield consts
        finally:
            pyrtl.Input = real
        return

    def fake(bitwidth=None, name='', block=None):
        i = count[0]
        count[0] += 1
        if bitwidth is not None and name and (cm['which'] == 'all' or cm['which'] == i):
            v = _value(name, bitwidth, cm['seed'])
            consts[name] = (v, bitwidth)
            return pyrtl.Const(v, bitwidth=bitwidth)
        return real(bitwidth, name) if block is None else real(bitwidth, name, block=block)
    pyrtl.Input = fake
    try:
        yield consts
    finally:
        pyrtl.Input = real
