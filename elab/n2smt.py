"""Translate a real PyRTL Block (as built by the real code under CPython) into z3 bit-vector
terms using spec/netsem.py.  The translation uses its own topological sort, not Block.__iter__,
and gives: per-cycle wire terms as a function of (inputs, register state, memory state) and the
next state.  `pyrtl.Simulation` is not used as an oracle here."""
import z3
import pyrtl
from pyrtl.memory import RomBlock
from spec.netsem import netsem_bv


class Malformed(Exception):
    pass


def topo_nets(block):
    """Combinational nets (everything but r and @) in producer-first order; own Kahn sort."""
    comb = [n for n in block.logic if n.op not in 'r@']
    src = {}
    for n in comb:
        for d in n.dests:
            if d in src:
                raise Malformed('two drivers for %s' % d.name)
            src[d] = n
    order, state = [], {}

    def visit(n):
        stack = [(n, iter(n.args))]
        state[n] = 1
        while stack:
            node, it = stack[-1]
            adv = False
            for a in it:
                p = src.get(a)
                if p is None:
                    continue
                st = state.get(p)
                if st == 1:
                    raise Malformed('combinational loop through %s' % a.name)
                if st is None:
                    state[p] = 1
                    stack.append((p, iter(p.args)))
                    adv = True
                    break
            if not adv:
                state[node] = 2
                order.append(node)
                stack.pop()

    # deterministic order: sort by destination name
    for n in sorted(comb, key=lambda n: n.dests[0].name):
        if n not in state:
            visit(n)
    return order


def rom_table(mem):
    """Concrete ROM contents {addr: val} from the user-supplied romdata (the specification of a
    RomBlock is romdata[address]); not via _get_read_data."""
    data = mem.data
    n = 2 ** mem.addrwidth
    out = {}
    if callable(data):
        for a in range(n):
            try:
                out[a] = int(data(a))
            except Exception:
                pass
    elif isinstance(data, dict):
        for a, v in data.items():
            out[int(a)] = int(v)
    else:
        for a, v in enumerate(data):
            out[a] = int(v)
    return out


_rom_undef = {}


def rom_read(mem, addr):
    """romdata[addr]; an address without data reads 0 when pad_with_zeros is set, otherwise the
    real simulators refuse it - modelled as an unconstrained value per (rom name, address), so a
    pass that loses pad_with_zeros (or data) is not equivalent."""
    tab = rom_table(mem)
    bw = mem.bitwidth
    pad = bool(getattr(mem, 'pad_with_zeros', False))
    r = None
    for a in range(2 ** mem.addrwidth) if mem.addrwidth <= 10 else sorted(tab):
        if a in tab:
            v = z3.BitVecVal(tab[a] % (2 ** bw), bw)
        elif pad:
            v = z3.BitVecVal(0, bw)
        else:
            key = (mem.name, a, bw)
            if key not in _rom_undef:
                _rom_undef[key] = z3.BitVec('romundef_%s_%d_%d' % (mem.name, a, len(_rom_undef)), bw)
            v = _rom_undef[key]
        r = v if r is None else z3.If(addr == a, v, r)
    return r if r is not None else z3.BitVecVal(0, bw)


class Sym(object):
    """Symbolic carrier of one block: named inputs/registers/memories -> z3 variables."""

    def __init__(self, block, tag=''):
        self.block = block
        self.tag = tag
        self.inputs = sorted(block.wirevector_subset(pyrtl.Input), key=lambda w: w.name)
        self.outputs = sorted(block.wirevector_subset(pyrtl.Output), key=lambda w: w.name)
        self.regs = sorted(block.wirevector_subset(pyrtl.Register), key=lambda w: w.name)
        mems = {}
        for n in block.logic:
            if n.op in 'm@':
                mems[n.op_param[1].id] = n.op_param[1]
        self.mems = [mems[k] for k in sorted(mems)]
        self.order = topo_nets(block)
        self.writes = sorted([n for n in block.logic if n.op == '@'],
                             key=lambda n: tuple(a.name for a in n.args))
        self.rnets = [n for n in block.logic if n.op == 'r']
        # snapshot: in-place passes may mutate the block after this object is built
        self.consts = [(w, w.val, w.bitwidth) for w in block.wirevector_set
                       if isinstance(w, pyrtl.Const)]

    def fresh_state(self, prefix):
        regs = {r: z3.BitVec('%s_r_%s' % (prefix, r.name), r.bitwidth) for r in self.regs}
        mems = {}
        for m in self.mems:
            if isinstance(m, RomBlock):
                continue
            mems[m] = z3.Array('%s_m_%s' % (prefix, m.name), z3.BitVecSort(m.addrwidth),
                               z3.BitVecSort(m.bitwidth))
        return dict(regs=regs, mems=mems)

    def fresh_inputs(self, prefix):
        return {w.name: z3.BitVec('%s_i_%s' % (prefix, w.name), w.bitwidth) for w in self.inputs}

    def step(self, state, inputs):
        """One cycle.  Returns (value: wire -> term, next_state)."""
        val = {}
        for (w, v, bw) in self.consts:
            val[w] = z3.BitVecVal(v, bw)
        for w in self.inputs:
            val[w] = inputs[w.name]
        for r in self.regs:
            val[r] = state['regs'][r]
        for n in self.order:
            try:
                args = [val[a] for a in n.args]
            except KeyError as e:
                raise Malformed('wire read but never driven: %s' % e.args[0].name)
            memread = None
            if n.op == 'm':
                mem = n.op_param[1]
                if isinstance(mem, RomBlock):
                    memread = (lambda mem: lambda addr: rom_read(mem, addr))(mem)
                else:
                    arr = state['mems'][mem]
                    memread = (lambda arr: lambda addr: z3.Select(arr, addr))(arr)
            d = n.dests[0]
            val[d] = netsem_bv(n.op, n.op_param, args, d.bitwidth, memread)
        nregs = {}
        for n in self.rnets:
            d = n.dests[0]
            t = val[n.args[0]]
            s = t.size()
            if s > d.bitwidth:
                t = z3.Extract(d.bitwidth - 1, 0, t)
            elif s < d.bitwidth:
                t = z3.ZeroExt(d.bitwidth - s, t)
            nregs[d] = t
        for r in self.regs:
            if r not in nregs:
                raise Malformed('register %s without next' % r.name)
        nmems = dict(state['mems'])
        for n in self.writes:
            mem = n.op_param[1]
            addr, data, en = (val[a] for a in n.args)
            nmems[mem] = z3.If(en != 0, z3.Store(nmems[mem], addr, data), nmems[mem])
        return val, dict(regs=nregs, mems=nmems)


def model_int(model, term):
    v = model.eval(term, model_completion=True)
    return v.as_long()
